package main

import (
	"fmt"
	"math/rand"
	"regexp"
	"strings"

	"verifharness/internal/dialect"
	"verifharness/internal/scratch"
)

func init() {
	commands["C11"] = func(c runCfg) error { return runFam(c, c11Cases) }
	commands["C16"] = func(c runCfg) error { return runFam(c, c16Cases) }
	commands["C17"] = func(c runCfg) error { return runFam(c, c17Cases) }
}

func runFam(c runCfg, gen func(runCfg) ([]*scratch.Pkg, []string, map[string]interface{})) error {
	var pkgs []*scratch.Pkg
	var lines []string
	meta := map[string]interface{}{}
	if c.Cases != "" {
		var err error
		lines, err = readLines(c.Cases)
		if err != nil {
			return err
		}
		pkgs = pkgsFromDLines(lines)
	} else {
		pkgs, lines, meta = gen(c)
	}
	r, err := runFamily(c, pkgs, lines, false)
	if err != nil {
		return err
	}
	return writeFam(c, r, meta)
}

// ---------------------------------------------------------------------------
// C11: all small security configurations

var secKinds = []string{"bearer", "keyheader", "keyquery", "basic", "bearerupper"}

func schemeFor(name, kind string) dialect.Scheme {
	switch kind {
	case "keyheader":
		return dialect.Scheme{Name: name, Kind: kind, Param: "X-Key-" + name}
	case "keyquery":
		return dialect.Scheme{Name: name, Kind: kind, Param: "key" + strings.ToLower(name)}
	}
	return dialect.Scheme{Name: name, Kind: kind}
}

// per-operation security options over scheme names A, B
func opSecurity(i int) (*[]dialect.Requirement, string) {
	switch i {
	case 0:
		return nil, "inherit"
	case 1:
		return &[]dialect.Requirement{}, "[]"
	case 2:
		return &[]dialect.Requirement{{"A"}}, "[A]"
	case 3:
		return &[]dialect.Requirement{{"B"}}, "[B]"
	case 4:
		return &[]dialect.Requirement{{"A"}, {"B"}}, "[A,B]"
	}
	return &[]dialect.Requirement{{"A", "B"}}, "[A+B]"
}

func globalSecurity(i int) ([]dialect.Requirement, bool, string) {
	switch i {
	case 0:
		return nil, false, "none"
	case 1:
		return []dialect.Requirement{{"A"}}, true, "[A]"
	}
	return []dialect.Requirement{{"A"}, {"B"}}, true, "[A,B]"
}

// credential attachment for a scheme: mode 0 absent, 1 valid, 2 invalid
func credFor(sc dialect.Scheme, mode int, url *string, hdrs *[][2]string) {
	if mode == 0 {
		return
	}
	tok := "tok" + sc.Name
	if mode == 2 {
		tok = "bad" + sc.Name
	}
	switch sc.Kind {
	case "bearer", "bearerupper":
		*hdrs = append(*hdrs, [2]string{"Authorization", "Bearer " + tok})
	case "keyheader":
		*hdrs = append(*hdrs, [2]string{sc.Param, tok})
	case "keyquery":
		sep := "?"
		if strings.Contains(*url, "?") {
			sep = "&"
		}
		*url += sep + sc.Param + "=" + tok
	case "basic":
		*hdrs = append(*hdrs, [2]string{"Authorization", "Basic " + tok})
	}
}

// hookOrder mirrors the API struct: bearer first (if present at all), then
// header keys, then query keys, each in scheme-name order.  The harness needs
// it only to address hooks by index in the cfg; whether the order is right is
// itself checked (the model computes the same indices from the spec).
func hookIndex(schemes []dialect.Scheme, usesBearer bool) map[string]int {
	idx := map[string]int{}
	n := 0
	if usesBearer {
		for _, s := range schemes {
			if s.Kind == "bearer" {
				idx[s.Name] = 0
			}
		}
		n = 1
	}
	for _, k := range []string{"keyheader", "keyquery"} {
		for _, s := range schemes { // schemes are listed in name order
			if s.Kind == k {
				idx[s.Name] = n
				n++
			}
		}
	}
	return idx
}

func c11Cases(c runCfg) ([]*scratch.Pkg, []string, map[string]interface{}) {
	rng := rand.New(rand.NewSource(c.Seed))
	type conf struct {
		ka, kb    string
		g, o1, o2 int
		share     bool
	}
	var confs []conf
	for _, ka := range secKinds {
		for _, kb := range secKinds {
			if ka == kb {
				continue
			}
			for g := 0; g < 3; g++ {
				for o1 := 0; o1 < 6; o1++ {
					for o2 := 0; o2 < 6; o2++ {
						for _, sh := range []bool{true, false} {
							confs = append(confs, conf{ka, kb, g, o1, o2, sh})
						}
					}
				}
			}
		}
	}
	total := len(confs)
	if !c.Thorough {
		rng.Shuffle(len(confs), func(i, j int) { confs[i], confs[j] = confs[j], confs[i] })
		confs = confs[:150]
	}
	var pkgs []*scratch.Pkg
	var lines []string
	nreq := 0
	dist := map[string]int{}
	for i, cf := range confs {
		sa, sb := schemeFor("A", cf.ka), schemeFor("B", cf.kb)
		if sa.Kind == "keyheader" {
			// the header as the document spells it: canonical, upper-case run, lower case
			sa.Param = []string{"X-Key-A", "X-KEY-A", "x-key-a", "X-API-KeyA"}[i%4]
		}
		if sb.Kind == "keyheader" {
			sb.Param = []string{"X-Key-B", "x-key-b", "X-KEY-B"}[i%3]
		}
		if i%7 == 3 && ((sa.Kind == "keyheader" && sb.Kind == "keyquery") || (sa.Kind == "keyquery" && sb.Kind == "keyheader")) {
			// one key name read from the header by one scheme and from the query by the other (the two authenticators would be
			// given one Go name: the generator refuses the document; were it accepted, each operation must still be guarded by
			// the scheme IT lists)
			sa.Param, sb.Param = "api_key", []string{"api_key", "api-key"}[i%2]
		}
		sp := &dialect.Spec{Schemes: []dialect.Scheme{sa, sb}}
		sp.Global, sp.HasGlobal, _ = globalSecurity(cf.g)
		s1, n1 := opSecurity(cf.o1)
		s2, n2 := opSecurity(cf.o2)
		dist["op:"+n1]++
		dist["op:"+n2]++
		dist["kinds:"+cf.ka+"/"+cf.kb]++
		op1 := &dialect.Op{Method: "GET", Security: s1, Responses: []dialect.Response{{Status: "200"}}}
		op2 := &dialect.Op{Method: "POST", Security: s2, Responses: []dialect.Response{{Status: "200"}}}
		op3 := &dialect.Op{Method: "PUT", Security: &[]dialect.Requirement{}, Responses: []dialect.Response{{Status: "200"}}}
		// the shape of the path decides which branch of the Route template renders the operation:
		// literal leaf, variable leaf, variable at the root, literal below a variable, the root itself
		shape := [][2]string{{"/a", "/b"}, {"/a/{id}", "/b/{id}"}, {"/{id}", "/b/{id}"}, {"/a/{id}/c", "/a/{id}"}, {"/", "/{id}"}}[i%5]
		dist["shape:"+shape[0]]++
		inst := func(raw string) string { return strings.ReplaceAll(raw, "{id}", "7") }
		paths := []string{inst(shape[0]), inst(shape[0]), inst(shape[0])}
		if cf.share {
			sp.Paths = []*dialect.PathItem{{Raw: shape[0], Params: pathParams(shape[0]), Ops: []*dialect.Op{op1, op2, op3}}}
		} else {
			sp.Paths = []*dialect.PathItem{{Raw: shape[0], Params: pathParams(shape[0]), Ops: []*dialect.Op{op1, op3}}, {Raw: shape[1], Params: pathParams(shape[1]), Ops: []*dialect.Op{op2}}}
			paths[1] = inst(shape[1])
		}
		rc := rcase{Pkg: fmt.Sprintf("p%04d", i), Spec: sp}
		p := rc.ScratchPkg()
		pkgs = append(pkgs, p)
		lines = append(lines, DLine(p), rc.SLine())
		// hooks: address by index.  uses-bearer = some operation keeps a bearer requirement;
		// the harness does not know what the generator keeps, so it sets policies for indices
		// under both assumptions through authdflt + explicit entries computed by the model's rule
		// (first scheme of each requirement).
		usesBearer := false
		check := func(rs []dialect.Requirement) {
			for _, r := range rs {
				if len(r) > 0 {
					k := cf.ka
					if r[0] == "B" {
						k = cf.kb
					}
					if k == "bearer" {
						usesBearer = true
					}
				}
			}
		}
		for _, o := range []*dialect.Op{op1, op2, op3} {
			if o.Security != nil {
				check(*o.Security)
			} else if sp.HasGlobal {
				check(sp.Global)
			}
		}
		hi := hookIndex(sp.Schemes, usesBearer)
		for _, hooks := range []string{"all", "nilA", "nilB"} {
			var cfgParts []string
			cfgParts = append(cfgParts, "mw=1", "authdflt=none")
			for _, sc := range sp.Schemes {
				ix, ok := hi[sc.Name]
				if !ok {
					continue
				}
				pol := "acc:" + dialect.Hx("tok"+sc.Name)
				if (hooks == "nilA" && sc.Name == "A") || (hooks == "nilB" && sc.Name == "B") {
					pol = "nil"
				}
				cfgParts = append(cfgParts, fmt.Sprintf("auth.%d=%s", ix, pol))
			}
			cfg := strings.Join(cfgParts, ",")
			for ma := 0; ma < 3; ma++ {
				for mb := 0; mb < 3; mb++ {
					if hooks != "all" && ma == 2 && mb == 2 {
						continue
					}
					for oi, m := range []string{"GET", "POST", "PUT"} {
						url := paths[oi]
						var hdrs [][2]string
						credFor(sa, ma, &url, &hdrs)
						credFor(sb, mb, &url, &hdrs)
						lines = append(lines, RLine(rc.Pkg, cfg, m, url, hdrs, ""))
						nreq++
					}
				}
			}
		}
	}
	meta := map[string]interface{}{"configurations": len(confs), "configurations_total": total, "requests": nreq, "distribution": dist}
	return pkgs, lines, meta
}

// ---------------------------------------------------------------------------
// C16: middleware stacks over routed / unrouted / spec-file / preflight requests

var c16Fill = regexp.MustCompile(`\{[^}]*\}`)

func c16Cases(c runCfg) ([]*scratch.Pkg, []string, map[string]interface{}) {
	rng := rand.New(rand.NewSource(c.Seed))
	nsets := 16
	if c.Thorough {
		nsets = 120
	}
	var pkgs []*scratch.Pkg
	var lines []string
	nreq := 0
	for i := 0; i < nsets; i++ {
		k := 2 + rng.Intn(4)
		seen := map[string]bool{}
		ts := tset{Methods: map[string][]string{}}
		for tries := 0; len(ts.Templates) < k && tries < 50; tries++ {
			t := randomTemplate(rng, 3, routerLits)
			if seen[equivKey(t)] {
				continue
			}
			seen[equivKey(t)] = true
			ts.Templates = append(ts.Templates, t)
			ts.Methods[t] = [][]string{{"GET"}, {"GET", "POST"}, {"POST", "OPTIONS"}}[rng.Intn(3)]
		}
		// the name of a variable is not part of a template's identity: in every other document the templates name the
		// variable at one position differently (/a/{p2}/b next to /a/{w2}/c); the template a middleware is told is the
		// operation's own
		if i%2 == 1 {
			nm := map[string][]string{}
			for k, t := range ts.Templates {
				nt := strings.ReplaceAll(t, "{p", "{"+[]string{"p", "w", "z"}[k%3])
				nm[nt] = ts.Methods[t]
				ts.Templates[k] = nt
			}
			ts.Methods = nm
		}
		bf := baseForms[i%len(baseForms)]
		sp := specFromTemplates(ts)
		sp.ServerURL, sp.ServerVar, sp.MoreServers = bf.Server, bf.Vars, bf.More
		// security on some operations
		secured := i%2 == 1
		if secured {
			sp.Schemes = []dialect.Scheme{schemeFor("A", "bearer"), schemeFor("B", "keyheader")}
			for _, pi := range sp.Paths {
				for j, o := range pi.Ops {
					switch (j + len(pi.Raw)) % 3 {
					case 0:
						o.Security = &[]dialect.Requirement{{"A"}}
					case 1:
						o.Security = &[]dialect.Requirement{{"B"}, {"A"}}
					}
				}
			}
		}
		cors := i%3 == 0
		rc := rcase{Pkg: fmt.Sprintf("p%04d", i), Spec: sp, FlagBase: bf.Flag, Cors: cors}
		p := rc.ScratchPkg()
		pkgs = append(pkgs, p)
		lines = append(lines, DLine(p), rc.SLine())
		base := rc.FlagBase
		if base == "" {
			if pth, ok := serverPath(sp); ok {
				base = pth
			}
		}
		nb := normBase(base)
		for mw := 0; mw <= 4; mw++ {
			for _, sf := range []int{0, 1} {
				cfg := fmt.Sprintf("mw=%d,nf=%d,sf=%d,cors=%d,authdflt=none,auth.0=acc:%s,auth.1=acc:%s", mw, (mw+sf)%2, sf, (mw+i)%2,
					dialect.Hx("tokA"), dialect.Hx("tokB"))
				depth := 3
				if mw != 2 {
					depth = 2
				}
				for _, l := range requestUniverse(rc, ts, depth, cfg) {
					// attach credentials to a third of the requests
					if secured && len(lines)%3 == 0 {
						f := strings.Split(l, " ")
						f[5] = dialect.Hx("Authorization:Bearer tokA\nX-Key-B:" + []string{"tokB", "nope"}[len(lines)%2] + "\n")
						l = strings.Join(f, " ")
					}
					lines = append(lines, l)
					nreq++
				}
				for _, m := range []string{"GET", "POST", "OPTIONS"} {
					for _, pth := range []string{nb + "/openapi.yaml", nb + "/openapi.yaml/", "/openapi.yaml", nb + "openapi.yaml", nb + "/openapi.yam"} {
						lines = append(lines, RLine(rc.Pkg, cfg, m, pth, nil, ""))
						nreq++
					}
					for _, t := range ts.Templates {
						lines = append(lines, RLine(rc.Pkg, cfg, m, nb+c16Fill.ReplaceAllString(t, "x"), nil, ""))
						nreq++
					}
				}
			}
		}
	}
	return pkgs, lines, map[string]interface{}{"template_sets": nsets, "requests": nreq, "stacks": "0..4"}
}

// ---------------------------------------------------------------------------
// C17: CORS preflight

func c17Cases(c runCfg) ([]*scratch.Pkg, []string, map[string]interface{}) {
	rng := rand.New(rand.NewSource(c.Seed))
	n := 60
	if c.Thorough {
		n = 500
	}
	methodSets := [][]string{{"GET"}, {"POST"}, {"GET", "POST"}, {"GET", "OPTIONS"}, {"DELETE", "GET", "PUT"}, {"OPTIONS"}, {"HEAD", "PATCH", "TRACE"}}
	hdrNames := []string{"X-Request-Id", "x-request-id", "X-Trace", "accept-language", "X-Key-A", "Authorization", "if_match"}
	var pkgs []*scratch.Pkg
	var lines []string
	nreq := 0
	// overlap family (both tiers): a literal path without an OPTIONS operation of its own (it gets the preflight entry) next to a
	// templated path that matches the same request and DECLARES OPTIONS, at every depth and with a trailing slash; requested with
	// and without a CORS handler: the preflight entry answers (or is not found), the templated operation never does
	overlaps := [][2]string{{"/a", "/{p1}"}, {"/a/b", "/{p1}/b"}, {"/a/b", "/a/{p2}"}, {"/a/b", "/{p1}/{p2}"}, {"/a/", "/{p1}/{p2}"},
		{"/a/b/c", "/{p1}/b/c"}, {"/a/b/c", "/a/{p2}/c"}, {"/a/b/c", "/a/b/{p3}"}, {"/a/b/", "/a/{p2}/{p3}"}, {"/", "/{p1}"}}
	for oi, ov := range overlaps {
		sp := &dialect.Spec{Schemes: []dialect.Scheme{schemeFor("A", "keyheader"), schemeFor("B", "bearer"), schemeFor("C", "keyquery")}}
		lit := &dialect.PathItem{Raw: ov[0], Ops: []*dialect.Op{{Method: "GET", Responses: []dialect.Response{{Status: "200"}}}}}
		tpl := &dialect.PathItem{Raw: ov[1], Params: pathParams(ov[1]), Ops: []*dialect.Op{
			{Method: "OPTIONS", Responses: []dialect.Response{{Status: "200"}}}, {Method: "POST", Responses: []dialect.Response{{Status: "200"}}}}}
		sp.Paths = []*dialect.PathItem{lit, tpl}
		rc := rcase{Pkg: fmt.Sprintf("v%04d", oi), Spec: sp, Cors: true}
		p := rc.ScratchPkg()
		pkgs = append(pkgs, p)
		lines = append(lines, DLine(p), rc.SLine())
		for _, ch := range []int{0, 1} {
			cfg := fmt.Sprintf("mw=1,nf=1,cors=%d,authdflt=any", ch)
			for _, m := range []string{"OPTIONS", "GET", "POST"} {
				lines = append(lines, RLine(rc.Pkg, cfg, m, ov[0], nil, ""))
				nreq++
			}
			lines = append(lines, RLine(rc.Pkg, cfg, "OPTIONS", strings.NewReplacer("{p1}", "x", "{p2}", "y", "{p3}", "z").Replace(ov[1]), nil, ""))
			nreq++
		}
	}
	for i := 0; i < n; i++ {
		sp := &dialect.Spec{Schemes: []dialect.Scheme{schemeFor("A", "keyheader"), schemeFor("B", "bearer"), schemeFor("C", "keyquery")}}
		// the apiKey header as the document spells it: canonical, upper-case run, lower case, equal (up to case) to a declared header parameter
		sp.Schemes[0].Param = []string{"X-Key-A", "X-KEY-A", "x-key-a", "X-API-Key", "x-request-id"}[i%5]
		if i%4 == 0 {
			sp.Global, sp.HasGlobal = []dialect.Requirement{{"B"}}, true
		}
		np := 1 + rng.Intn(3)
		var raws []string
		seen := map[string]bool{}
		for len(raws) < np {
			t := randomTemplate(rng, 2, routerLits)
			if !seen[equivKey(t)] {
				seen[equivKey(t)] = true
				raws = append(raws, t)
			}
		}
		for _, raw := range raws {
			pi := &dialect.PathItem{Raw: raw, Params: pathParams(raw)}
			if rng.Intn(2) == 0 {
				pi.Params = append(pi.Params, dialect.Param{Name: hdrNames[rng.Intn(len(hdrNames))], In: "header", Schema: &dialect.Schema{Type: "string"}})
			}
			for _, m := range methodSets[rng.Intn(len(methodSets))] {
				o := &dialect.Op{Method: m, Responses: []dialect.Response{{Status: "200"}}}
				used := map[string]bool{}
				for _, p := range pi.Params {
					used[strings.ToLower(p.Name)] = true
				}
				for k := rng.Intn(3); k > 0; k-- {
					h := hdrNames[rng.Intn(len(hdrNames))]
					if used[strings.ToLower(h)] {
						continue
					}
					used[strings.ToLower(h)] = true
					o.Params = append(o.Params, dialect.Param{Name: h, In: "header", Required: rng.Intn(2) == 0, Schema: &dialect.Schema{Type: "string"}})
				}
				switch rng.Intn(5) {
				case 0:
					o.Security = &[]dialect.Requirement{{"A"}}
				case 1:
					o.Security = &[]dialect.Requirement{{"B"}, {"A"}}
				case 2:
					o.Security = &[]dialect.Requirement{{"C"}}
				case 3:
					o.Security = &[]dialect.Requirement{}
				}
				pi.Ops = append(pi.Ops, o)
			}
			sp.Paths = append(sp.Paths, pi)
		}
		corsOn := i%5 != 4
		rc := rcase{Pkg: fmt.Sprintf("p%04d", i), Spec: sp, Cors: corsOn}
		p := rc.ScratchPkg()
		pkgs = append(pkgs, p)
		lines = append(lines, DLine(p), rc.SLine())
		for _, ch := range []int{0, 1} {
			cfg := fmt.Sprintf("mw=1,nf=1,cors=%d,authdflt=any", ch)
			for _, raw := range raws {
				pth := strings.NewReplacer("{p1}", "x", "{p2}", "y").Replace(raw)
				for _, m := range []string{"OPTIONS", "GET", "POST"} {
					lines = append(lines, RLine(rc.Pkg, cfg, m, pth, [][2]string{{"Authorization", "Bearer t"}, {"X-Key-A", "t"}}, ""))
					nreq++
				}
				lines = append(lines, RLine(rc.Pkg, cfg, "OPTIONS", pth+"/zz", nil, ""))
				nreq++
			}
		}
	}
	return pkgs, lines, map[string]interface{}{"specs": n, "requests": nreq}
}
