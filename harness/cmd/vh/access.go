package main

// C20 translator: inventories, in the code the generator emits for the corpus
// (server and client files), every access to state that is shared between
// requests — package-level variables, and the fields of pointer receivers (the
// API and Client values) — and classifies it as a read or a write. Written to
// coq/theories/Gen/SharedAccess.v; the obligation is that all are reads.

import (
	"fmt"
	"go/ast"
	"go/token"
	"go/types"
	"math/rand"
	"os"
	"path/filepath"
	"sort"
	"strings"

	"golang.org/x/tools/go/packages"

	"verifharness/internal/scratch"
)

func init() { commands["access"] = runAccess }

func runAccess(c runCfg) error {
	rng := rand.New(rand.NewSource(1))
	root, err := os.MkdirTemp("", "access")
	if err != nil {
		return err
	}
	defer os.RemoveAll(root)
	var pkgs []*scratch.Pkg
	for i := 0; i < 24; i++ {
		rc, _ := c14Package(rng, i)
		rc.Client = i%2 == 0
		pkgs = append(pkgs, rc.ScratchPkg())
	}
	for i := 0; i < 12; i++ {
		rc := c20Package(rng, 100+i)
		pkgs = append(pkgs, rc.ScratchPkg())
	}
	for i, cl := range c01Matrix() {
		if (cl.tags[0] == "json" || cl.tags[0] == "resphdr" || cl.tags[0] == "raw" || cl.tags[0] == "security") && i%6 == 0 {
			p := &scratch.Pkg{Name: fmt.Sprintf("m%04d", i), Doc: cl.sp.Doc(), Opts: c01Opts[1].o}
			pkgs = append(pkgs, p)
		}
	}
	if _, err := scratch.New(root, pkgs); err != nil {
		return err
	}
	var patterns []string
	for _, p := range pkgs {
		if p.GenErr == "" && p.GenPanic == "" {
			patterns = append(patterns, "./"+p.Name)
		}
	}
	cfg := &packages.Config{
		Mode: packages.NeedName | packages.NeedFiles | packages.NeedSyntax | packages.NeedTypes | packages.NeedTypesInfo | packages.NeedImports,
		Dir:  root,
		Env:  append(os.Environ(), "GOFLAGS=-mod=mod", "GOPROXY=off", "GOSUMDB=off", "GOTOOLCHAIN=local", "GOWORK=off"),
	}
	loaded, err := packages.Load(cfg, patterns...)
	if err != nil {
		return err
	}
	counts := map[string]int{}
	examples := map[string]map[string]bool{}
	note := func(kind, ex string) {
		counts[kind]++
		if examples[kind] == nil {
			examples[kind] = map[string]bool{}
		}
		if len(examples[kind]) < 60 || strings.HasPrefix(kind, "AWrite") {
			examples[kind][ex] = true
		}
	}
	nPkgs := 0
	for _, p := range loaded {
		if len(p.Errors) > 0 {
			continue
		}
		nPkgs++
		for _, f := range p.Syntax {
			fname := filepath.Base(p.Fset.Position(f.Pos()).Filename)
			if strings.HasPrefix(fname, "zz_") {
				continue
			}
			for _, d := range f.Decls {
				fd, ok := d.(*ast.FuncDecl)
				if !ok || fd.Body == nil || fd.Name.Name == "init" {
					continue
				}
				// the pointer receiver, if any
				var recv *types.Var
				if fd.Recv != nil && len(fd.Recv.List) == 1 && len(fd.Recv.List[0].Names) == 1 {
					if st, isPtr := fd.Recv.List[0].Type.(*ast.StarExpr); isPtr {
						// the values shared between requests: the API and the Client (every other pointer receiver is a value
						// being decoded for one request)
						if id, ok := st.X.(*ast.Ident); ok && (id.Name == "API" || id.Name == "Client") {
							recv, _ = p.TypesInfo.Defs[fd.Recv.List[0].Names[0]].(*types.Var)
						}
					}
				}
				fn := fd.Name.Name
				// a VALUE receiver is a shallow copy: storing into an element of one of its slices or maps writes into backing
				// storage the caller's value shares (and with it every request that was handed the same value)
				if fd.Recv != nil && len(fd.Recv.List) == 1 && len(fd.Recv.List[0].Names) == 1 {
					if _, isPtr := fd.Recv.List[0].Type.(*ast.StarExpr); !isPtr {
						vrecv, _ := p.TypesInfo.Defs[fd.Recv.List[0].Names[0]].(*types.Var)
						var rooted func(e ast.Expr) bool
						rooted = func(e ast.Expr) bool {
							switch x := e.(type) {
							case *ast.Ident:
								return vrecv != nil && p.TypesInfo.Uses[x] == vrecv
							case *ast.SelectorExpr:
								return rooted(x.X)
							case *ast.IndexExpr:
								return rooted(x.X)
							case *ast.ParenExpr:
								return rooted(x.X)
							}
							return false
						}
						ast.Inspect(fd.Body, func(n ast.Node) bool {
							as, ok := n.(*ast.AssignStmt)
							if !ok || as.Tok == token.DEFINE {
								return true
							}
							for _, l := range as.Lhs {
								if ix, ok := l.(*ast.IndexExpr); ok && rooted(ix.X) {
									note("AWriteField", fmt.Sprintf("%s: an element reachable from the value receiver is stored to in %s (package %s): %s", fname, fn, p.Name, types.ExprString(l)))
								}
							}
							return true
						})
					}
				}
				// identifiers in written position: base of an assignment target, ++/--, operand of &
				written := map[*ast.Ident]bool{}
				var base func(e ast.Expr) *ast.Ident
				base = func(e ast.Expr) *ast.Ident {
					switch x := e.(type) {
					case *ast.Ident:
						return x
					case *ast.SelectorExpr:
						if id := base(x.X); id != nil {
							// a write to recv.Field: remember the selector's field through the receiver ident
							return id
						}
					case *ast.IndexExpr:
						return base(x.X)
					case *ast.StarExpr:
						return base(x.X)
					case *ast.ParenExpr:
						return base(x.X)
					}
					return nil
				}
				ast.Inspect(fd.Body, func(n ast.Node) bool {
					switch s := n.(type) {
					case *ast.AssignStmt:
						if s.Tok == token.DEFINE {
							// := declares new locals (an existing variable on the left can only be a local of the same scope)
							return true
						}
						for _, l := range s.Lhs {
							if id := base(l); id != nil {
								written[id] = true
							}
						}
					case *ast.IncDecStmt:
						if id := base(s.X); id != nil {
							written[id] = true
						}
					case *ast.UnaryExpr:
						if s.Op == token.AND {
							if id := base(s.X); id != nil {
								written[id] = true
							}
						}
					case *ast.RangeStmt:
						if s.Tok == token.ASSIGN {
							for _, l := range []ast.Expr{s.Key, s.Value} {
								if l != nil {
									if id := base(l); id != nil {
										written[id] = true
									}
								}
							}
						}
					}
					return true
				})
				// a method with a pointer receiver called on a package-level variable may mutate it (sync.Pool.Get, Buffer.Write, ...)
				ast.Inspect(fd.Body, func(n ast.Node) bool {
					call, ok := n.(*ast.CallExpr)
					if !ok {
						return true
					}
					sel, ok := call.Fun.(*ast.SelectorExpr)
					if !ok {
						return true
					}
					if s, ok := p.TypesInfo.Selections[sel]; ok && s.Kind() == types.MethodVal {
						if fnObj, ok := s.Obj().(*types.Func); ok {
							if sig, ok := fnObj.Type().(*types.Signature); ok && sig.Recv() != nil {
								if _, isPtr := sig.Recv().Type().(*types.Pointer); isPtr {
									if id := base(sel.X); id != nil {
										if obj, ok := p.TypesInfo.Uses[id].(*types.Var); ok && obj.Parent() == p.Types.Scope() {
											written[id] = true
										}
									}
								}
							}
						}
					}
					return true
				})
				// a package-level variable of a reference type (slice, map, pointer, channel) handed to a callee may be written
				// through, unless the callee is one that only reads its argument (io.Writer.Write's contract, bytes.Equal, ...)
				ast.Inspect(fd.Body, func(n ast.Node) bool {
					call, ok := n.(*ast.CallExpr)
					if !ok {
						return true
					}
					callee := types.ExprString(call.Fun)
					readOnly := false
					switch callee {
					case "bytes.Equal", "bytes.Compare", "bytes.NewReader", "bytes.HasPrefix", "bytes.HasSuffix", "bytes.Contains", "bytes.Index",
						"len", "cap", "string", "json.Valid", "json.Unmarshal":
						readOnly = true
					}
					if sel, ok := call.Fun.(*ast.SelectorExpr); ok && sel.Sel.Name == "Write" && len(call.Args) == 1 {
						readOnly = true // (io.Writer: "Write must not modify the slice data, even temporarily")
					}
					if tv, ok := p.TypesInfo.Types[call.Fun]; ok && tv.IsType() {
						readOnly = true // a conversion
					}
					if callee == "append" && len(call.Args) > 0 {
						// append(x, ...) may write into the spare capacity of x's backing array: x shared => a write
						// (unless x is a full slice expression x[a:b:b], which forces a copy)
						if se, ok := call.Args[0].(*ast.SliceExpr); !ok || !se.Slice3 {
							if id := base(call.Args[0]); id != nil {
								if obj, ok := p.TypesInfo.Uses[id].(*types.Var); ok && (obj.Parent() == p.Types.Scope() || (recv != nil && obj == recv)) {
									if _, isSel := call.Args[0].(*ast.SelectorExpr); isSel || obj.Parent() == p.Types.Scope() {
										written[id] = true
									}
								}
							}
						}
					}
					for ai, a := range call.Args {
						if callee == "copy" && ai == 1 {
							continue // the source of copy
						}
						if callee == "append" && ai > 0 {
							continue // appended elements are read
						}
						if callee == "json.Unmarshal" && ai == 1 {
							// (the target of Unmarshal is written: &global is already caught by the & rule)
							continue
						}
						if readOnly {
							continue
						}
						arg := a
						if se, ok := arg.(*ast.SliceExpr); ok {
							arg = se.X
						}
						id, ok := arg.(*ast.Ident)
						if !ok {
							continue
						}
						obj, ok := p.TypesInfo.Uses[id].(*types.Var)
						if !ok || obj.Parent() != p.Types.Scope() {
							continue
						}
						switch obj.Type().Underlying().(type) {
						case *types.Slice, *types.Map, *types.Pointer, *types.Chan:
							written[id] = true
						}
					}
					return true
				})
				ast.Inspect(fd.Body, func(n ast.Node) bool {
					id, ok := n.(*ast.Ident)
					if !ok {
						return true
					}
					obj, ok := p.TypesInfo.Uses[id].(*types.Var)
					if !ok {
						return true
					}
					switch {
					case obj.Parent() == p.Types.Scope():
						if written[id] {
							note("AWriteGlobal", fmt.Sprintf("%s: %s written in %s (package %s)", fname, id.Name, fn, p.Name))
						} else {
							note("AReadGlobal", fname+": "+id.Name)
						}
					case recv != nil && obj == recv:
						if written[id] {
							note("AWriteField", fmt.Sprintf("%s: a field of receiver %s written in %s (package %s)", fname, id.Name, fn, p.Name))
						} else {
							note("AReadField", fname+": receiver "+id.Name+" of "+strings.TrimPrefix(types.TypeString(recv.Type(), func(*types.Package) string { return "" }), "*"))
						}
					}
					return true
				})
			}
		}
	}
	var kinds []string
	for k := range counts {
		kinds = append(kinds, k)
	}
	sort.Strings(kinds)
	var v, t strings.Builder
	v.WriteString("(* GENERATED by `vh access` from the code the generator at /repo emits for the C20 corpus. Do not edit. *)\n")
	v.WriteString("From Coq Require Import List.\nImport ListNotations.\nFrom Goag Require Import Model.Shared.\n\n")
	v.WriteString("Definition observed_shared_accesses : list (access_kind * nat) := [\n")
	for i, k := range kinds {
		sep := ";"
		if i == len(kinds)-1 {
			sep = ""
		}
		fmt.Fprintf(&v, "  (%s, %d)%s\n", k, counts[k], sep)
	}
	v.WriteString("].\n")
	fmt.Fprintf(&t, "packages inspected: %d\n", nPkgs)
	for _, k := range kinds {
		fmt.Fprintf(&t, "== %s (%d accesses)\n", k, counts[k])
		var ex []string
		for e := range examples[k] {
			ex = append(ex, e)
		}
		sort.Strings(ex)
		for _, e := range ex {
			t.WriteString("   " + e + "\n")
		}
	}
	out := c.Out
	if out == "" {
		out = "/verif/coq/theories/Gen"
	}
	if err := os.WriteFile(filepath.Join(out, "SharedAccess.v"), []byte(v.String()), 0o644); err != nil {
		return err
	}
	if err := os.WriteFile(filepath.Join(out, "SharedAccess.txt"), []byte(t.String()), 0o644); err != nil {
		return err
	}
	fmt.Printf("access: %d packages; %v\n", nPkgs, counts)
	return nil
}
