package main

import (
	"crypto/sha256"
	"encoding/hex"
	"encoding/json"
	"fmt"
	"math/rand"
	"os"
	"path/filepath"
	"sort"
	"strings"

	"verifharness/internal/gen"
	"verifharness/internal/pool"
)

func init() { commands["C19"] = runC19 }

const c19SpecWith = `openapi: 3.0.0
info: {title: with components, version: "1"}
paths:
  /pets/{id}:
    get:
      parameters:
        - {name: id, in: path, required: true, schema: {type: integer}}
      responses:
        "200":
          description: ok
          content:
            application/json:
              schema: {$ref: '#/components/schemas/Pet'}
components:
  schemas:
    Pet:
      type: object
      required: [name]
      properties:
        name: {type: string}
        tag: {type: string}
`

const c19SpecWithout = `openapi: 3.0.0
info: {title: without components, version: "1"}
paths:
  /ping:
    get:
      parameters:
        - {name: q, in: query, schema: {type: string}}
      responses:
        "204": {description: ok}
`

type c19Inv struct {
	Spec   int // 1 = with components, 2 = without
	HasC   bool
	Client bool
	API    bool
}

func (i c19Inv) String() string {
	b := func(x bool) string {
		if x {
			return "1"
		}
		return "0"
	}
	return fmt.Sprintf("%d:%s:%s:%s", i.Spec, b(i.HasC), b(i.Client), b(i.API))
}

func c19Invocations() []c19Inv {
	var out []c19Inv
	for _, sp := range []int{1, 2} {
		for _, cl := range []bool{false, true} {
			for _, api := range []bool{false, true} {
				out = append(out, c19Inv{Spec: sp, HasC: sp == 1, Client: cl, API: api})
			}
		}
	}
	return out
}

var c19Owned = []string{"components", "handler", "router", "spec_file", "client"}

// user files: index n -> (file name, content)
var c19UserFiles = []struct{ Name, Content string }{
	{"README.md", "# my service\n"},
	{"client_test.go", "package test\n\n// user test file\n"},
	{"zz_custom.go", "package test\n\nvar Custom = 1\n"},
	// a user file of the same package that imports third-party packages under the names the generated code uses for the
	// standard library (a goimports run that looks at sibling files would borrow them)
	{"zz_impl.go", "package test\n\nimport (\n\t\"example.com/project/fmt\"\n\t\"example.com/project/json\"\n\t\"example.com/project/log\"\n\t\"example.com/project/strings\"\n)\n\nvar _ = log.Println\nvar _ = fmt.Errorf\nvar _ = json.Marshal\nvar _ = strings.HasPrefix\n"},
}

func c19Run(dir string, i c19Inv) error {
	doc := c19SpecWith
	if i.Spec == 2 {
		doc = c19SpecWithout
	}
	err, panicked, _ := gen.Generate([]byte(doc), dir, gen.Options{Client: i.Client, API: i.API, DoNotEdit: true})
	if panicked {
		return fmt.Errorf("generator panicked: %v", err)
	}
	return err
}

func sha(b []byte) string {
	h := sha256.Sum256(b)
	return hex.EncodeToString(h[:8])
}

func c19Observe(dir string, k int) ([]string, []string, error) {
	var toks []string
	for _, f := range c19Owned {
		bs, err := os.ReadFile(filepath.Join(dir, f+".go"))
		if os.IsNotExist(err) {
			toks = append(toks, "-")
		} else if err != nil {
			return nil, nil, err
		} else {
			toks = append(toks, sha(bs))
		}
	}
	for n := 0; n < k; n++ {
		bs, err := os.ReadFile(filepath.Join(dir, c19UserFiles[n].Name))
		if os.IsNotExist(err) {
			toks = append(toks, "-")
		} else if err != nil {
			return nil, nil, err
		} else {
			toks = append(toks, sha(bs))
		}
	}
	// any file in the directory that is neither owned nor a known user file
	ents, err := os.ReadDir(dir)
	if err != nil {
		return nil, nil, err
	}
	var extra []string
	for _, e := range ents {
		name := e.Name()
		known := false
		for _, f := range c19Owned {
			if name == f+".go" {
				known = true
			}
		}
		for n := 0; n < k; n++ {
			if name == c19UserFiles[n].Name {
				known = true
			}
		}
		if !known {
			extra = append(extra, name)
		}
	}
	sort.Strings(extra)
	return toks, extra, nil
}

type c19Case struct {
	K    int
	D0   []string // "fname=n" entries: file pre-seeded with user content n
	Hist []c19Inv
}

func (c c19Case) Line() string {
	d0 := "-"
	if len(c.D0) > 0 {
		d0 = strings.Join(c.D0, ",")
	}
	h := "-"
	if len(c.Hist) > 0 {
		var hs []string
		for _, i := range c.Hist {
			hs = append(hs, i.String())
		}
		h = strings.Join(hs, ",")
	}
	return fmt.Sprintf("C19 %d %s %s", c.K, d0, h)
}

// pre-seeded owned files hold this (stale, foreign-looking) content
func c19StaleContent(n int) string { return fmt.Sprintf("package stale\n\n// stale content %d\n", n) }

// c19Worker runs one history against the real generator and reports the
// directory state as hashes.
func c19Worker(scratch string) func(string) string {
	n := 0
	return func(line string) string {
		cs1, err := c19ParseLine(line)
		if err != nil {
			return "impl=ERROR:" + err.Error()
		}
		cs := *cs1
		n++
		d, err := os.MkdirTemp(scratch, "h")
		if err != nil {
			return "impl=ERROR:mkdtemp"
		}
		defer os.RemoveAll(d)
		for _, e := range cs.D0 {
			kv := strings.SplitN(e, "=", 2)
			var idx int
			fmt.Sscanf(kv[1], "%d", &idx)
			isOwned := false
			for _, f := range c19Owned {
				if f == kv[0] {
					isOwned = true
				}
			}
			if !isOwned {
				var u int
				fmt.Sscanf(kv[0], "o%d", &u)
				os.WriteFile(filepath.Join(d, c19UserFiles[u].Name), []byte(c19UserFiles[idx].Content), 0o644)
				continue
			}
			content := []byte(c19StaleContent(idx))
			if idx >= 200 && len(cs.Hist) > 0 {
				// a file that LOOKS up to date: derived from what the last invocation is going to write
				// (200: that content plus a tail; 201: its first half; 202: same length, last byte changed)
				ref, err := os.MkdirTemp(scratch, "ref")
				if err == nil {
					if c19Run(ref, cs.Hist[len(cs.Hist)-1]) == nil {
						if bs, err := os.ReadFile(filepath.Join(ref, kv[0]+".go")); err == nil && len(bs) > 2 {
							switch idx {
							case 200:
								content = append(bs, []byte("\n// stale tail\nvar staleTail = 1\n")...)
							case 201:
								content = bs[:len(bs)/2]
							default:
								content = append([]byte{}, bs...)
								content[len(content)-2] ^= 1
							}
						}
					}
					os.RemoveAll(ref)
				}
			}
			os.WriteFile(filepath.Join(d, kv[0]+".go"), content, 0o644)
		}
		for _, i := range cs.Hist {
			if err := c19Run(d, i); err != nil {
				return "impl=ERROR:" + strings.ReplaceAll(err.Error(), " ", "_")
			}
		}
		toks, extra, err := c19Observe(d, cs.K)
		if err != nil {
			return "impl=ERROR:" + strings.ReplaceAll(err.Error(), " ", "_")
		}
		s := "impl=" + strings.Join(toks, ",")
		if len(extra) > 0 {
			s += ",extra:" + strings.Join(extra, "+")
		}
		return s
	}
}

func runC19(c runCfg) error {
	if c.Worker {
		pool.Serve(c19Worker(c.Out))
		return nil
	}
	scratch, err := os.MkdirTemp(c.Out, "scratch")
	if err != nil {
		return err
	}
	defer os.RemoveAll(scratch)

	invs := c19Invocations()
	// table: label "G<inv>/<file>" -> hash, from the eight single runs
	table := map[string]string{}
	for n, i := range invs {
		d := filepath.Join(scratch, fmt.Sprintf("single%d", n))
		os.MkdirAll(d, 0o755)
		if err := c19Run(d, i); err != nil {
			return fmt.Errorf("single run %v: %w", i, err)
		}
		toks, extra, err := c19Observe(d, 0)
		if err != nil {
			return err
		}
		if len(extra) > 0 {
			return fmt.Errorf("single run %v wrote unexpected files %v", i, extra)
		}
		for j, f := range c19Owned {
			if toks[j] != "-" {
				table["G"+i.String()+"/"+f] = toks[j]
			}
		}
	}
	for n, u := range c19UserFiles {
		table[fmt.Sprintf("U%d", n)] = sha([]byte(u.Content))
	}
	for n := 100; n < 105; n++ {
		table[fmt.Sprintf("U%d", n)] = sha([]byte(c19StaleContent(n)))
	}

	// the universe
	var cases []c19Case
	if c.Cases != "" {
		cases, err = c19ParseCases(c.Cases)
		if err != nil {
			return err
		}
	}
	var hists [][]c19Inv
	if c.Cases == "" {
		hists = append(hists, nil)
	}
	for _, a := range invs {
		if c.Cases != "" {
			break
		}
		hists = append(hists, []c19Inv{a})
		for _, b := range invs {
			hists = append(hists, []c19Inv{a, b})
			for _, d := range invs {
				hists = append(hists, []c19Inv{a, b, d})
			}
		}
	}
	exhaustive := len(hists) - 1 // 584
	for _, h := range hists {
		cases = append(cases, c19Case{K: 0, Hist: h})
		cases = append(cases, c19Case{K: 3, D0: []string{"o0=0", "o1=1", "o2=2"}, Hist: h})
		if len(h) <= 2 {
			cases = append(cases, c19Case{K: 4, D0: []string{"o3=3"}, Hist: h})
		}
	}
	// files that look up to date before the last run: every owned file x every invocation x three near-copies,
	// as a one-step history and behind a different first step
	for ai, a := range invs {
		if c.Cases != "" {
			break
		}
		for _, f := range c19Owned {
			for _, kind := range []int{200, 201, 202} {
				cases = append(cases, c19Case{K: 0, D0: []string{fmt.Sprintf("%s=%d", f, kind)}, Hist: []c19Inv{a}})
				if kind == 200 {
					cases = append(cases, c19Case{K: 0, D0: []string{fmt.Sprintf("%s=%d", f, kind)}, Hist: []c19Inv{invs[(ai+3)%len(invs)], a}})
				}
			}
		}
	}
	rng := rand.New(rand.NewSource(c.Seed))
	nrand := 60
	if c.Thorough {
		nrand = 2000
	}
	if c.Cases != "" {
		nrand = 0
	}
	for n := 0; n < nrand; n++ {
		ln := 4 + rng.Intn(7)
		if !c.Thorough {
			ln = 1 + rng.Intn(5)
		}
		var h []c19Inv
		for j := 0; j < ln; j++ {
			h = append(h, invs[rng.Intn(len(invs))])
		}
		cs := c19Case{K: 3, Hist: h}
		for u := 0; u < 3; u++ {
			if rng.Intn(2) == 0 {
				cs.D0 = append(cs.D0, fmt.Sprintf("o%d=%d", u, u))
			}
		}
		// stale goag-owned files left by "someone else"
		for j, f := range c19Owned {
			if rng.Intn(3) == 0 {
				cs.D0 = append(cs.D0, fmt.Sprintf("%s=%d", f, 100+j))
			}
		}
		cases = append(cases, cs)
	}

	lines := make([]string, len(cases))
	for n := range cases {
		lines[n] = cases[n].Line()
	}
	impl, err := pool.Map([]string{"C19", "-worker", "-out", scratch}, lines, 16)
	if err != nil {
		return err
	}

	var cl, il strings.Builder
	for n := range cases {
		cl.WriteString(cases[n].Line() + "\n")
		il.WriteString(impl[n] + "\n")
	}
	if err := os.WriteFile(filepath.Join(c.Out, "cases.txt"), []byte(cl.String()), 0o644); err != nil {
		return err
	}
	if err := os.WriteFile(filepath.Join(c.Out, "impl.txt"), []byte(il.String()), 0o644); err != nil {
		return err
	}
	distinct := map[string]bool{}
	lens := map[int]int{}
	for n := range cases {
		distinct[impl[n]+"|"+cases[n].Line()] = true
		lens[len(cases[n].Hist)]++
	}
	meta := map[string]interface{}{
		"table":              table,
		"exhaustive_len_le3": exhaustive,
		"cases":              len(cases),
		"history_lengths":    lens,
		"generator_runs": func() int {
			t := 8
			for _, cs := range cases {
				t += len(cs.Hist)
			}
			return t
		}(),
		"user_files": []string{c19UserFiles[0].Name, c19UserFiles[1].Name, c19UserFiles[2].Name, c19UserFiles[3].Name},
	}
	bs, _ := json.MarshalIndent(meta, "", " ")
	return os.WriteFile(filepath.Join(c.Out, "meta.json"), bs, 0o644)
}

func c19ParseLine(line string) (*c19Case, error) {
	f := strings.Fields(line)
	if len(f) != 4 || f[0] != "C19" {
		return nil, fmt.Errorf("not a C19 case")
	}
	var cs c19Case
	fmt.Sscanf(f[1], "%d", &cs.K)
	if f[2] != "-" {
		cs.D0 = strings.Split(f[2], ",")
	}
	if f[3] != "-" {
		for _, is := range strings.Split(f[3], ",") {
			var sp, hc, cl, api int
			if _, err := fmt.Sscanf(is, "%d:%d:%d:%d", &sp, &hc, &cl, &api); err != nil {
				return nil, fmt.Errorf("bad invocation %q", is)
			}
			cs.Hist = append(cs.Hist, c19Inv{Spec: sp, HasC: hc == 1, Client: cl == 1, API: api == 1})
		}
	}
	return &cs, nil
}

func c19ParseCases(file string) ([]c19Case, error) {
	bs, err := os.ReadFile(file)
	if err != nil {
		return nil, err
	}
	var out []c19Case
	for _, line := range strings.Split(string(bs), "\n") {
		if cs, err := c19ParseLine(line); err == nil {
			out = append(out, *cs)
		}
	}
	return out, nil
}
