package main

// C18: a $ref behaves exactly like the component it points to. Every document
// of the corpus is generated three times — as written (a random mix of inline
// definitions and references), with every reference replaced by an inline copy
// of its target, and with every inline definition hoisted into components — and
// the three packages are compared on the same raw requests (routing, acceptance,
// parsed parameters, the JSON the parsed body re-encodes to) and on the same
// response values (status, headers, body on the wire).

import (
	"fmt"
	"math/rand"
	"strconv"
	"strings"

	"verifharness/internal/dialect"
	"verifharness/internal/scratch"
)

func init() { commands["C18"] = runC18 }

func c18Cases(c runCfg) ([]*scratch.Pkg, []string, map[string]interface{}) {
	rng := rand.New(rand.NewSource(c.Seed))
	ngroups, per, nval := 10, 120, 4
	if c.Thorough {
		ngroups, per, nval = 40, 400, 10
	}
	var pkgs []*scratch.Pkg
	var lines []string
	g := &jgen{rng: rng, noNullAny: true}
	grp := 0
	nReq, nResp := 0, 0
	for gi := 0; gi < ngroups; gi++ {
		// every other document is reference-rich: all primitive properties and items of its bodies are components
		c14RefAllPrims = gi%2 == 0
		rc, ops := c14Package(rng, gi)
		c14RefAllPrims = false
		inl := rc.Spec.InlineAll()
		hoi, names := rc.Spec.HoistAll()
		variants := []struct {
			tag string
			sp  *dialect.Spec
		}{{"asis", rc.Spec}, {"inline", inl}, {"hoist", hoi}}
		var vp []*scratch.Pkg
		for vi, v := range variants {
			r2 := rc
			r2.Spec = v.sp
			r2.Pkg = fmt.Sprintf("p%03d%c", gi, 'a'+vi)
			p := r2.ScratchPkg()
			vp = append(vp, p)
			pkgs = append(pkgs, p)
			lines = append(lines, DLine(p)+" #variant="+v.tag)
		}
		base, _ := serverPath(rc.Spec)
		if rc.FlagBase != "" {
			base = rc.FlagBase
		}
		base = normBase(base)
		c14Requests(rng, g, ops, base, per, ",reenc=1", func(kind, cfg, method, rawurl string, headers [][2]string, body string) {
			var hb strings.Builder
			for _, h := range headers {
				hb.WriteString(h[0] + ":" + h[1] + "\n")
			}
			grp++
			nReq++
			for _, p := range vp {
				lines = append(lines, fmt.Sprintf("F %s %s %s %s %s %s #grp=%d #kind=%s", p.Name, cfg, method, dialect.Hx(rawurl), dialect.Hx(hb.String()), dialect.Hx(body), grp, kind))
			}
		})
		// response values: the same value of every documented response, written by each variant
		comps := compSchemas(rc.Spec)
		or := &oracle{seen: map[string]bool{}}
		for _, op := range ops {
			key := op.o.Method + ":" + dialect.Hx(op.pi.Raw)
			for _, pl := range op.plans {
				for k := 0; k < nval; k++ {
					var parts []string
					if pl.status == "default" {
						parts = append(parts, "I("+strconv.Itoa([]int{200, 400, 404, 500, 599}[rng.Intn(5)])+")")
					}
					switch pl.kind {
					case "json":
						parts = append(parts, g.genValue(pl.body, or))
					case "raw":
						parts = append(parts, "Body("+dialect.Hx(rawBodies[rng.Intn(len(rawBodies))])+")")
					}
					if len(pl.headers) > 0 {
						var fs []string
						for _, h := range pl.headers {
							v := c09Value(h.Schema, comps, rng, or, h.Required, false)
							if strings.Contains(v, "Null") {
								v = strings.ReplaceAll(v, "Null", "P(S(78))")
							}
							if h.Required {
								fs = append(fs, v)
							} else if rng.Intn(3) == 0 {
								fs = append(fs, "N")
							} else {
								fs = append(fs, "J("+v+")")
							}
						}
						parts = append(parts, "{"+strings.Join(fs, ",")+"}")
					}
					val := "{" + strings.Join(parts, ",") + "}"
					grp++
					nResp++
					for vi, p := range vp {
						gt := pl.gotype
						if vi == 1 && pl.comp != "" {
							// inlined: the operation's own response type
							gt = "@Response" + strings.Title(pl.status)
							if pl.kind == "json" {
								gt += "JSON"
							}
						}
						if vi == 2 && pl.comp == "" {
							if n, ok := names[op.o.Method+" "+op.pi.Raw+" "+pl.status]; ok {
								gt = n + "Response"
							}
						}
						// a URL that reaches the operation: variables filled, every credential attached
						var segs []string
						for _, seg := range strings.Split(strings.TrimPrefix(op.pi.Raw, "/"), "/") {
							if strings.HasPrefix(seg, "{") {
								seg = "1"
							}
							segs = append(segs, seg)
						}
						u := base + "/" + strings.Join(segs, "/") + "?api_key=k"
						lines = append(lines, fmt.Sprintf("RV %s %s %s %s %s #grp=%d", p.Name, key, gt, val, dialect.Hx(u), grp))
					}
				}
			}
		}
	}
	return pkgs, lines, map[string]interface{}{"documents": ngroups, "variants_per_document": 3, "request_groups": nReq, "response_value_groups": nResp}
}

func runC18(c runCfg) error {
	var pkgs []*scratch.Pkg
	var lines []string
	meta := map[string]interface{}{}
	if c.Cases != "" {
		var err error
		lines, err = readLines(c.Cases)
		if err != nil {
			return err
		}
		pkgs = pkgsFromDLines(lines)
	} else {
		pkgs, lines, meta = c18Cases(c)
	}
	root, err := mkRoot(c)
	if err != nil {
		return err
	}
	defer rmRoot(root)
	m, err := scratch.New(root, pkgs)
	if err != nil {
		return err
	}
	m.AddDrivers()
	if err := m.Build(false); err != nil {
		return err
	}
	defer m.Close()
	byName := map[string]*scratch.Pkg{}
	for _, p := range pkgs {
		byName[p.Name] = p
	}
	opname := map[string]string{}
	var ask []string
	for _, p := range pkgs {
		if p.OK() {
			ask = append(ask, p.Name+" OPSN")
		}
	}
	res, err := m.Run(ask)
	if err != nil {
		return err
	}
	k := 0
	for _, p := range pkgs {
		if !p.OK() {
			continue
		}
		for _, e := range strings.Split(strings.TrimPrefix(res[k], "ops="), ",") {
			f := strings.SplitN(e, "=", 2)
			if len(f) == 2 {
				opname[p.Name+" "+f[0]] = f[1]
			}
		}
		k++
	}
	impl := make([]string, len(lines))
	var send []string
	var idx []int
	for i, l := range lines {
		f := strings.Split(l, " ")
		switch {
		case f[0] == "F" && len(f) >= 7:
			p := byName[f[1]]
			if p == nil || !p.OK() {
				impl[i] = "SKIP pkg-unavailable"
				continue
			}
			send = append(send, fmt.Sprintf("%s REQ %s %s %s %s %s", f[1], f[2], f[3], f[4], f[5], f[6]))
			idx = append(idx, i)
		case f[0] == "RV" && len(f) >= 6:
			p := byName[f[1]]
			if p == nil || !p.OK() {
				impl[i] = "SKIP pkg-unavailable"
				continue
			}
			name, ok := opname[f[1]+" "+f[2]]
			if !ok {
				impl[i] = "impl=ERROR:no_such_operation"
				continue
			}
			send = append(send, fmt.Sprintf("%s SERVE %s %s %s %s %s", f[1], name, strings.Replace(f[3], "@", name, 1), f[4], strings.SplitN(f[2], ":", 2)[0], f[5]))
			idx = append(idx, i)
		default:
			impl[i] = "SKIP"
		}
	}
	res, err = m.Run(send)
	if err != nil {
		return err
	}
	for k, i := range idx {
		impl[i] = res[k]
	}
	return writeFam(c, &famResult{Cases: lines, Impl: impl, Pkgs: pkgs}, meta)
}
