package main

import (
	"context"
	"encoding/json"
	"fmt"
	"io"
	"math/rand"
	"net/http"
	"net/url"
	"os"
	"path/filepath"
	"sort"
	"strconv"
	"strings"
	"time"

	"github.com/getkin/kin-openapi/openapi3"
	"github.com/getkin/kin-openapi/openapi3filter"

	"verifharness/internal/dialect"
	"verifharness/internal/gen"
	"verifharness/internal/scratch"
)

func init() { commands["C09"] = runC09 }

// values a caller can put into a request field of the given schema (Dump
// syntax), with the oracle lines the model needs
func c09Value(s *dialect.Schema, comps map[string]*dialect.Schema, rng *rand.Rand, or *oracle, noEmpty, inPath bool) string {
	for s.Ref != "" {
		s = comps[s.Ref]
	}
	wrap := func(x string) string {
		if s.Nullable {
			// a null for a nullable parameter is expressible in the request type but not on the wire (D24)
			if !inPath && rng.Intn(10) == 0 {
				return "Null"
			}
			return "P(" + x + ")"
		}
		return x
	}
	switch s.Type {
	case "string":
		if s.Format == "date-time" {
			t, _ := time.Parse(time.RFC3339Nano, jTimes[rng.Intn(len(jTimes))])
			_, off := t.Zone()
			repr := fmt.Sprintf("%d,%d", t.UnixNano(), off)
			or.timeFmt(repr, t)
			return wrap("T(" + repr + ")")
		}
		vals := []string{"abc", "a b", "%41", "ü", "?#&=+;,", "\"q\\", "x", "日本", "a%2Fb", "+", " lead"}
		if !inPath {
			vals = append(vals, "a/b")
		}
		if !noEmpty {
			vals = append(vals, "")
			if rng.Intn(5) == 0 {
				// (the empty string is the one value whose presence is not visible in its length: weighted)
				return wrap("S(" + dialect.Hx("") + ")")
			}
		}
		return wrap("S(" + dialect.Hx(vals[rng.Intn(len(vals))]) + ")")
	case "integer":
		v := jInts[rng.Intn(len(jInts))]
		if s.Format == "int32" && (v > 2147483647 || v < -2147483648) {
			v = -5
		}
		return wrap("I(" + strconv.FormatInt(v, 10) + ")")
	case "number":
		bits := 64
		if s.Format == "float" {
			bits = 32
		}
		f := jFloats[rng.Intn(len(jFloats))]
		if bits == 32 {
			f = float64(float32(f))
		}
		repr := strconv.FormatFloat(f, 'g', -1, bits)
		text := strconv.FormatFloat(f, 'e', -1, bits)
		or.add(fmt.Sprintf("O ffmt %d %s %s", bits, dialect.Hx(repr), dialect.Hx(text)))
		back := "ERR"
		if g, err := strconv.ParseFloat(text, bits); err == nil {
			back = dialect.Hx(strconv.FormatFloat(g, 'g', -1, bits))
		}
		or.add(fmt.Sprintf("O float %d %s %s", bits, dialect.Hx(text), back))
		return wrap("F(" + repr + ")")
	case "boolean":
		return wrap([]string{"B(0)", "B(1)"}[rng.Intn(2)])
	case "array":
		n := 1 + rng.Intn(3)
		var parts []string
		for i := 0; i < n; i++ {
			// (an empty text as an array ELEMENT is read as null by the independent validator: not sent)
			parts = append(parts, c09Value(s.Items, comps, rng, or, true, inPath))
		}
		return wrap("[" + strings.Join(parts, ",") + "]")
	}
	return "?"
}

func c09Cases(c runCfg) ([]*scratch.Pkg, []string, map[string]interface{}) {
	rng := rand.New(rand.NewSource(c.Seed))
	nops := 30
	nvals := 12
	if c.Thorough {
		nops, nvals = 240, 40
	}
	var pkgs []*scratch.Pkg
	var lines []string
	ncall := 0
	g := &jgen{rng: rng, noNullAny: true}
	bodyKinds := map[string]int{}
	for start := 0; start < nops; start += 6 {
		sp := &dialect.Spec{CompParams: map[string]dialect.Param{}}
		pkg := fmt.Sprintf("p%04d", start/6)
		bf := baseForms[(start/6)%len(baseForms)]
		sp.ServerURL, sp.ServerVar, sp.MoreServers = bf.Server, bf.Vars, bf.More
		type opinfo struct {
			pi    *dialect.PathItem
			o     *dialect.Op
			body  *JS
			bname string
		}
		var ops []opinfo
		for oi := 0; oi < 6 && start+oi < nops; oi++ {
			raw := fmt.Sprintf("/op%d", oi)
			nv := rng.Intn(3)
			pi := &dialect.PathItem{}
			for v := 0; v < nv; v++ {
				name := fmt.Sprintf("pp%d", v)
				raw += []string{"/x", ""}[rng.Intn(2)] + "/{" + name + "}"
				sc := paramSchemas[rng.Intn(len(paramSchemas))]()
				pi.Params = append(pi.Params, dialect.Param{Name: name, In: "path", Required: true, Schema: sc})
			}
			pi.Raw = raw
			o := &dialect.Op{Method: []string{"GET", "POST", "PUT"}[rng.Intn(3)], Responses: []dialect.Response{{Status: "200"}}}
			np := 1 + rng.Intn(5)
			for k := 0; k < np; k++ {
				in := []string{"query", "query", "header"}[rng.Intn(3)]
				name := fmt.Sprintf("q%d%s", k, []string{"", "-x", "_y", "Id", ".z", "_user_id", "URL", "[size]", "$f", "[]", " b"}[rng.Intn(11)])
				sc := paramSchemas[rng.Intn(len(paramSchemas))]()
				if rng.Intn(5) == 0 {
					sc.Nullable = true
				}
				if in == "header" {
					name = "X-H" + fmt.Sprint(k) + []string{"", "-Val", "-id", "-Uuid", "-Api-Url", "-Ids"}[rng.Intn(6)]
				} else if rng.Intn(3) == 0 {
					sc = &dialect.Schema{Type: "array", Items: sc}
					sc.Items.Nullable = false
				}
				// (a $ref to a NULLABLE primitive component does not compile: a C01 cell, D35)
				if rng.Intn(4) == 0 && !sc.Nullable {
					cn := fmt.Sprintf("S%d%d", oi, k)
					sp.CompSchemas = append(sp.CompSchemas, dialect.Prop{Name: cn, Schema: sc})
					sc = &dialect.Schema{Ref: cn}
				}
				o.Params = append(o.Params, dialect.Param{Name: name, In: in, Required: rng.Intn(2) == 0, Schema: sc})
			}
			// a request body on some POST/PUT operations: a component object ($ref), an
			// inline object, or a non-JSON media type (io.Reader on both sides)
			var body *JS
			bname := ""
			if o.Method != "GET" {
				switch rng.Intn(5) {
				case 0:
					body = g.object(2, false)
					body.Ref = fmt.Sprintf("Body%d", oi)
					bname = body.Ref
					o.Body = &dialect.Body{Content: "application/json", Schema: body.Dialect(&sp.CompSchemas), Required: true}
					bodyKinds["json-ref"]++
				case 1:
					body = g.object(2, false)
					bname = fmt.Sprintf("Inline%d", oi)
					o.Body = &dialect.Body{Content: "application/json", Schema: body.Dialect(&sp.CompSchemas), Required: true}
					bodyKinds["json-inline"]++
				case 3:
					// through components.requestBodies (object by $ref or defined in place)
					body = g.object(2, false)
					if rng.Intn(2) == 0 {
						body.Ref = fmt.Sprintf("CBody%d", oi)
					}
					bname = fmt.Sprintf("Comp%d", oi)
					if sp.CompBodies == nil {
						sp.CompBodies = map[string]dialect.Body{}
					}
					sp.CompBodies[bname] = dialect.Body{Content: "application/json", Schema: body.Dialect(&sp.CompSchemas), Required: true}
					o.Body = &dialect.Body{Ref: bname}
					bodyKinds["json-component"]++
				case 2:
					bname = "raw"
					o.Body = &dialect.Body{Content: "application/octet-stream", Schema: &dialect.Schema{Type: "string", Format: "binary"}, Required: true}
					bodyKinds["raw"]++
				default:
					bodyKinds["none"]++
				}
			}
			pi.Ops = []*dialect.Op{o}
			scatterPathParams(rng, pi)
			sp.Paths = append(sp.Paths, pi)
			ops = append(ops, opinfo{pi, o, body, bname})
		}
		rc := rcase{Pkg: pkg, Spec: sp, FlagBase: bf.Flag, Client: true}
		p := rc.ScratchPkg()
		pkgs = append(pkgs, p)
		lines = append(lines, DLine(p), rc.SLine())
		comps := compSchemas(sp)
		for _, op := range ops {
			lines = append(lines, PLine(pkg, sp, op.pi, op.o))
			q, h, pth := effectiveParams(sp, op.pi, op.o)
			or := &oracle{seen: map[string]bool{}}
			var calls []string
			if op.body != nil {
				lines = append(lines, "J "+pkg+" "+op.bname+" "+op.body.Model())
			}
			for k := 0; k < nvals; k++ {
				section := func(ps []dialect.Param, inPath bool) string {
					var fs []string
					for _, x := range ps {
						// (an empty text for a REQUIRED parameter is rejected by the independent validator:
						// empty strings are exercised on optional parameters only)
						v := c09Value(x.Schema, comps, rng, or, inPath || x.Required, inPath)
						if x.Required || inPath {
							fs = append(fs, v)
						} else if rng.Intn(3) == 0 {
							fs = append(fs, "N")
						} else {
							fs = append(fs, "J("+v+")")
						}
					}
					return "{" + strings.Join(fs, ",") + "}"
				}
				var parts []string
				if len(q) > 0 {
					parts = append(parts, section(q, false))
				}
				if len(pth) > 0 {
					parts = append(parts, section(pth, true))
				}
				if len(h) > 0 {
					parts = append(parts, section(h, false))
				}
				call := fmt.Sprintf("K %s %s:%s {%s}", pkg, op.o.Method, dialect.Hx(op.pi.Raw), strings.Join(parts, ","))
				if op.body != nil {
					call += " " + op.bname + " " + g.genValue(op.body, or)
				} else if op.bname == "raw" {
					call += " raw Body(" + dialect.Hx(rawBodies[rng.Intn(len(rawBodies))]) + ")"
				}
				calls = append(calls, call)
				ncall++
			}
			lines = append(lines, or.lines...)
			lines = append(lines, calls...)
		}
	}
	ue := c09UrlLines(rand.New(rand.NewSource(c.Seed+77)), c.Thorough)
	lines = append(lines, ue...)
	return pkgs, lines, map[string]interface{}{"operations": nops, "calls": ncall, "request_bodies": bodyKinds, "url_escape_cases": len(ue)}
}

var rawBodies = []string{"x", "\x00\x01\xff binary", "{\"not\":\"parsed\"}", strings.Repeat("long ", 300)}

func runC09(c runCfg) error {
	var pkgs []*scratch.Pkg
	var lines []string
	meta := map[string]interface{}{}
	if c.Cases != "" {
		var err error
		lines, err = readLines(c.Cases)
		if err != nil {
			return err
		}
		pkgs = pkgsFromDLines(lines)
	} else {
		pkgs, lines, meta = c09Cases(c)
	}
	root, err := mkRoot(c)
	if err != nil {
		return err
	}
	defer rmRoot(root)
	m, err := scratch.New(root, pkgs)
	if err != nil {
		return err
	}
	m.AddDrivers()
	if err := m.Build(false); err != nil {
		return err
	}
	defer m.Close()
	byName := map[string]*scratch.Pkg{}
	routers := map[string]*openapi3filter.Router{}
	for _, p := range pkgs {
		byName[p.Name] = p
		if sw, err := openapi3.NewSwaggerLoader().LoadSwaggerFromData(p.Doc); err == nil {
			// the validator learns the (normalised) base path as the server URL
			base := p.Opts.BasePath
			if base == "" && len(sw.Servers) > 0 {
				raw := sw.Servers[0].URL
				for k, v := range sw.Servers[0].Variables {
					if d, ok := v.Default.(string); ok {
						raw = strings.ReplaceAll(raw, "{"+k+"}", d)
					}
				}
				if u, err := url.Parse(raw); err == nil {
					base = u.Path
				}
			}
			base = strings.TrimRight(base, "/")
			sw.Servers = nil
			if base != "" {
				sw.Servers = openapi3.Servers{&openapi3.Server{URL: base}}
			}
			func() {
				defer func() { recover() }()
				routers[p.Name] = openapi3filter.NewRouter().WithSwagger(sw)
			}()
		}
	}
	// operation names: ask the driver
	opname := map[string]string{}
	var ask []string
	for _, p := range pkgs {
		if p.OK() {
			ask = append(ask, p.Name+" OPSN")
		}
	}
	res, err := m.Run(ask)
	if err != nil {
		return err
	}
	k := 0
	for _, p := range pkgs {
		if !p.OK() {
			continue
		}
		for _, e := range strings.Split(strings.TrimPrefix(res[k], "ops="), ",") {
			f := strings.SplitN(e, "=", 2) // METHOD:hexpath=Name
			if len(f) == 2 {
				opname[p.Name+" "+f[0]] = f[1]
			}
		}
		k++
	}
	impl := make([]string, len(lines))
	var send []string
	var idx []int
	for i, l := range lines {
		f := strings.Split(l, " ")
		switch f[0] {
		case "S":
			p := byName[f[1]]
			st := "accept"
			extra := ""
			if p.GenPanic != "" {
				st, extra = "panic", " detail="+dialect.Hx(p.GenPanic)
			} else if p.GenErr != "" {
				st, extra = "reject", " detail="+dialect.Hx(p.GenErr)
			} else if p.BuildErr != "" {
				st, extra = "builderr", " detail="+dialect.Hx(p.BuildErr)
			}
			impl[i] = "status=" + st + " trace=-" + extra
		case "K":
			p := byName[f[1]]
			if p == nil || !p.OK() {
				impl[i] = "SKIP pkg-unavailable"
				continue
			}
			name, ok := opname[f[1]+" "+f[2]]
			if !ok {
				impl[i] = "impl=ERROR:no_such_operation"
				continue
			}
			val := f[3]
			if len(f) >= 6 {
				// the body is the last field of the request struct
				inner := strings.TrimSuffix(strings.TrimPrefix(val, "{"), "}")
				if inner != "" {
					inner += ","
				}
				val = "{" + inner + f[5] + "}"
			}
			send = append(send, f[1]+" CALL "+name+" "+val)
			idx = append(idx, i)
		case "UE":
			impl[i] = c09UrlImpl(f)
		default:
			impl[i] = "SKIP"
		}
	}
	res, err = m.Run(send)
	if err != nil {
		return err
	}
	for k, i := range idx {
		out := res[k]
		// the independent validator on the request the server received
		f := strings.Split(lines[i], " ")
		verdict := "unavailable"
		for _, t := range strings.Fields(out) {
			if strings.HasPrefix(t, "wire=") {
				w := strings.Split(strings.TrimPrefix(t, "wire="), ",")
				if len(w) == 4 && w[1] != "" {
					verdict = validateWire(routers[f[1]], w[0], dialect.UnHx(w[1]), dialect.UnHx(w[2]), dialect.UnHx(w[3]))
				}
			}
		}
		impl[i] = out + " valid=" + verdict
	}
	return writeFam(c, &famResult{Cases: lines, Impl: impl, Pkgs: pkgs}, meta)
}

// c09UrlImpl: what net/url itself does, for the UE lines (Model/UrlEscape.v is a transcription of it)
func c09UrlImpl(f []string) string {
	if len(f) != 3 {
		return "impl=ERROR:args"
	}
	pairs := func(a string) [][2]string {
		var out [][2]string
		if a == "-" {
			return nil
		}
		for _, kv := range strings.Split(a, ",") {
			p := strings.SplitN(kv, ":", 2)
			out = append(out, [2]string{dialect.UnHx(p[0]), dialect.UnHx(p[1])})
		}
		return out
	}
	grouped := func(v url.Values) string {
		keys := make([]string, 0, len(v))
		for k := range v {
			keys = append(keys, k)
		}
		sort.Strings(keys)
		var out []string
		for _, k := range keys {
			for _, x := range v[k] {
				out = append(out, dialect.Hx(k)+":"+dialect.Hx(x))
			}
		}
		if len(out) == 0 {
			return "-"
		}
		return strings.Join(out, ",")
	}
	switch f[1] {
	case "ck":
		return "impl=" + dialect.Hx(http.CanonicalHeaderKey(dialect.UnHx(f[2])))
	case "pe":
		return "impl=" + dialect.Hx(url.PathEscape(dialect.UnHx(f[2])))
	case "qe":
		return "impl=" + dialect.Hx(url.QueryEscape(dialect.UnHx(f[2])))
	case "pu":
		// what the server does with the raw path of the request line: URL.Path of the parsed request URI
		raw := dialect.UnHx(f[2])
		s, err := url.PathUnescape(raw)
		if err != nil {
			return "impl=ERR"
		}
		return "impl=ok:" + dialect.Hx(s)
	case "qu":
		s, err := url.QueryUnescape(dialect.UnHx(f[2]))
		if err != nil {
			return "impl=ERR"
		}
		return "impl=ok:" + dialect.Hx(s)
	case "ve":
		v := url.Values{}
		for _, p := range pairs(f[2]) {
			v.Add(p[0], p[1])
		}
		return "impl=" + dialect.Hx(v.Encode())
	case "pq":
		u := &url.URL{RawQuery: dialect.UnHx(f[2])}
		return "impl=" + grouped(u.Query())
	case "rt":
		v := url.Values{}
		for _, p := range pairs(f[2]) {
			v.Add(p[0], p[1])
		}
		u := &url.URL{RawQuery: v.Encode()}
		return "impl=" + grouped(u.Query())
	}
	return "impl=ERROR:mode"
}

// c09UrlLines: byte strings for the escaping functions (every byte class: unreserved, sub-delims, '%', '+', space, controls, >= 0x80),
// malformed escapes for the unescapers, raw query strings with empty pieces, ';', '=' in odd places, and pair lists for Encode/Query()
func c09UrlLines(rng *rand.Rand, thorough bool) []string {
	n := 600
	if thorough {
		n = 12000
	}
	var out []string
	// every single byte, and every byte after a '%'
	for b := 0; b < 256; b++ {
		s := string([]byte{byte(b)})
		out = append(out, "UE pe "+dialect.Hx(s), "UE qe "+dialect.Hx(s), "UE pu "+dialect.Hx(s), "UE qu "+dialect.Hx(s),
			"UE pu "+dialect.Hx("%"+s+"0"), "UE qu "+dialect.Hx("%4"+s), "UE pq "+dialect.Hx("a"+s+"b=c"+s+"d"))
	}
	// header names for http.CanonicalHeaderKey: token and non-token bytes, hyphens at every place, mixed case
	hatoms := []string{"x", "X", "-", "--", "api", "KEY", "Id", "9", "_", ".", " ", ":", "é", "~", "!", "(", "\x00", "Uuid", "a-b"}
	for b := 0; b < 256; b++ {
		out = append(out, "UE ck "+dialect.Hx("a"+string([]byte{byte(b)})+"b"), "UE ck "+dialect.Hx(string([]byte{byte(b)})+"x"))
	}
	for i := 0; i < n; i++ {
		var b strings.Builder
		for k := rng.Intn(6); k >= 0; k-- {
			b.WriteString(hatoms[rng.Intn(len(hatoms))])
		}
		out = append(out, "UE ck "+dialect.Hx(b.String()))
	}
	atoms := []string{"a", "Z", "0", "-", "_", ".", "~", "$", "&", "+", ",", "/", ":", ";", "=", "?", "@", "%", " ", "#", "\"", "<", "\x00", "\n", "\xc3\xa9", "\xff", "%2F", "%zz", "%4", "%", "%41", "+", "&&", "=="}
	text := func(k int) string {
		var b strings.Builder
		for i := 0; i < k; i++ {
			b.WriteString(atoms[rng.Intn(len(atoms))])
		}
		return b.String()
	}
	for i := 0; i < n; i++ {
		s := text(rng.Intn(7))
		out = append(out, "UE pe "+dialect.Hx(s), "UE qe "+dialect.Hx(s), "UE pu "+dialect.Hx(s), "UE qu "+dialect.Hx(s), "UE pq "+dialect.Hx(s))
		k := rng.Intn(5)
		var ps []string
		for j := 0; j < k; j++ {
			key := []string{"q", "tag", "a b", "", "é", "k=1", "z&", "q"}[rng.Intn(8)]
			ps = append(ps, dialect.Hx(key)+":"+dialect.Hx(text(rng.Intn(4))))
		}
		a := "-"
		if len(ps) > 0 {
			a = strings.Join(ps, ",")
		}
		out = append(out, "UE ve "+a, "UE rt "+a)
	}
	return out
}

func validateWire(router *openapi3filter.Router, method, rawurl, headers, body string) (verdict string) {
	if router == nil {
		return "unavailable"
	}
	defer func() {
		if r := recover(); r != nil {
			verdict = "validator-panic"
		}
	}()
	u, err := url.Parse(rawurl)
	if err != nil {
		return "bad-url"
	}
	req := &http.Request{Method: method, URL: u, Header: http.Header{}, Body: io.NopCloser(strings.NewReader(body))}
	for _, l := range strings.Split(headers, "\n") {
		if kv := strings.SplitN(l, ":", 2); len(kv) == 2 {
			req.Header.Add(kv[0], kv[1])
		}
	}
	route, pathParams, err := router.FindRoute(method, u)
	if err != nil {
		return "no-route:" + dialect.Hx(err.Error())
	}
	err = openapi3filter.ValidateRequest(context.Background(), &openapi3filter.RequestValidationInput{
		Request: req, PathParams: pathParams, Route: route,
		Options: &openapi3filter.Options{AuthenticationFunc: func(context.Context, *openapi3filter.AuthenticationInput) error { return nil }},
	})
	if err != nil {
		return "invalid:" + dialect.Hx(err.Error())
	}
	return "ok"
}

var _ = json.Marshal
var _ = os.Getenv
var _ = filepath.Join
var _ = gen.Options{}
