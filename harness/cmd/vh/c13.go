package main

import (
	"encoding/hex"
	"encoding/json"
	"fmt"
	"go/ast"
	"go/constant"
	"go/parser"
	"go/token"
	"go/types"
	"math/rand"
	"os"
	"path/filepath"
	"strings"
	"unicode/utf8"

	"github.com/ghodss/yaml"

	"verifharness/internal/gen"
	"verifharness/internal/pool"
	"verifharness/internal/scratch"
)

func init() { commands["C13"] = runC13 }

// a minimal loadable document; the embedded bytes are passed separately
// (goag.Generate takes specRaw as an independent argument).
const c13Doc = `openapi: 3.0.0
info: {title: t, version: "1"}
paths:
  /ping:
    get:
      responses:
        "204": {description: ok}
`

// a document whose templates could capture the spec file's path
const c13DocVar = `openapi: 3.0.0
info: {title: t, version: "1"}
paths:
  /{id}:
    parameters: [{name: id, in: path, required: true, schema: {type: string}}]
    get:
      responses:
        "204": {description: ok}
  /{a}/{b}:
    parameters: [{name: a, in: path, required: true, schema: {type: string}}, {name: b, in: path, required: true, schema: {type: string}}]
    get:
      responses:
        "204": {description: ok}
`

func hx(s string) string {
	if s == "" {
		return "-"
	}
	return hex.EncodeToString([]byte(s))
}

func unhx(h string) string {
	if h == "-" {
		return ""
	}
	b, _ := hex.DecodeString(h)
	return string(b)
}

// evalConstExpr evaluates a Go constant expression with go/parser+go/types.
func evalConstExpr(src string) (string, bool) {
	file := "package p\n\nconst X = " + src + "\n"
	return evalConstInFile(file, "X")
}

func evalConstInFile(file, name string) (string, bool) {
	fset := token.NewFileSet()
	f, err := parser.ParseFile(fset, "x.go", file, parser.AllErrors)
	if err != nil {
		return "", false
	}
	conf := types.Config{Error: func(error) {}}
	pkg, err := conf.Check("p", fset, []*ast.File{f}, nil)
	if err != nil || pkg == nil {
		return "", false
	}
	obj := pkg.Scope().Lookup(name)
	c, ok := obj.(*types.Const)
	if !ok || c.Val().Kind() != constant.String {
		return "", false
	}
	return constant.StringVal(c.Val()), true
}

func c13Worker(scratch string) func(string) string {
	return func(line string) string {
		f := strings.Fields(line)
		if len(f) != 3 || f[0] != "C13" {
			return "impl=ERROR:bad_case"
		}
		s := unhx(f[2])
		switch f[1] {
		case "lit":
			v, ok := evalConstExpr(s)
			if !ok {
				return "impl=INVALID"
			}
			return "impl=" + hx(v)
		case "enc":
			d, err := os.MkdirTemp(scratch, "g")
			if err != nil {
				return "impl=ERROR:mkdtemp"
			}
			defer os.RemoveAll(d)
			// the directory is not fresh: an earlier run has left the files of ANOTHER document of the same length there (what is
			// embedded must be the input of this run, whatever the directory held)
			if len(s) > 0 {
				prev := []byte(s)
				for k := range prev {
					switch {
					case prev[k] >= 'a' && prev[k] < 'z', prev[k] >= '0' && prev[k] < '9':
						prev[k]++
					case prev[k] == 'z':
						prev[k] = 'a'
					}
				}
				gen.Generate([]byte(c13Doc), d, gen.Options{API: true, DoNotEdit: true, SpecRaw: prev, SpecName: "openapi.yaml"})
			}
			gerr, panicked, _ := gen.Generate([]byte(c13Doc), d, gen.Options{API: true, DoNotEdit: true, SpecRaw: []byte(s), SpecName: "openapi.yaml"})
			if panicked {
				return "impl=PANIC"
			}
			if gerr != nil {
				// a reported error is allowed by the property (C01/C15): nothing is claimed to be embedded
				return "impl=GENERR"
			}
			bs, err := os.ReadFile(filepath.Join(d, "spec_file.go"))
			if err != nil {
				return "impl=ERROR:no_spec_file"
			}
			v, ok := evalConstInFile(string(bs), "SpecFile")
			if !ok {
				return "impl=INVALID"
			}
			return "impl=" + hx(v)
		}
		return "impl=ERROR:bad_kind"
	}
}

func runC13(c runCfg) error {
	if c.Worker {
		pool.Serve(c13Worker(c.Out))
		return nil
	}
	scratchDir, err := os.MkdirTemp(c.Out, "scratch")
	if err != nil {
		return err
	}
	defer os.RemoveAll(scratchDir)

	var lines []string
	kinds := map[string]int{}
	add := func(kind, s string) {
		lines = append(lines, "C13 "+kind+" "+hx(s))
		kinds[kind]++
	}
	if c.Cases != "" {
		bs, err := os.ReadFile(c.Cases)
		if err != nil {
			return err
		}
		for _, l := range strings.Split(string(bs), "\n") {
			if strings.HasPrefix(l, "C13 ") {
				lines = append(lines, l)
			}
		}
	} else {
		// (1) exhaustive: all strings of length <= 4 over 7 symbols
		alpha := []string{"`", "\"", "\\", "\n", "\r", "$", "a"}
		var rec func(prefix string, n int)
		rec = func(prefix string, n int) {
			add("enc", prefix)
			if n == 0 {
				return
			}
			for _, a := range alpha {
				rec(prefix+a, n-1)
			}
		}
		rec("", 4)
		exhaustive := len(lines)
		// (2) real specs in several forms
		rng := rand.New(rand.NewSource(c.Seed))
		var docs []string
		fix, _ := filepath.Glob("/repo/tests/*/openapi.yaml")
		for _, p := range fix {
			if bs, err := os.ReadFile(p); err == nil {
				docs = append(docs, string(bs))
			}
		}
		docs = append(docs, c13Doc, c19SpecWith)
		nd := 12
		if c.Thorough {
			nd = len(docs)
		}
		rng.Shuffle(len(docs), func(i, j int) { docs[i], docs[j] = docs[j], docs[i] })
		if nd > len(docs) {
			nd = len(docs)
		}
		for _, d := range docs[:nd] {
			add("enc", d)
			add("enc", strings.ReplaceAll(d, "\n", "\r\n"))
			add("enc", strings.TrimRight(d, "\n"))
			if js, err := yaml.YAMLToJSON([]byte(d)); err == nil {
				add("enc", string(js)) // one-line JSON form
				add("enc", strings.ReplaceAll(string(js), "t", `\t`))
			}
		}
		// (3) random text (valid UTF-8, no NUL) with the interesting bytes over-represented
		nr := 300
		if c.Thorough {
			nr = 6000
		}
		pieces := []string{"`", "\"", "\\", "\n", "\r", "$", "a", "b", " ", "\t", "é", "日本", "\\n", "\\x41", "\\u00e9", "'", "+", "`+\"`\"+`", "\r\n", "//", "/*", "*/", "\x7f", "\x01", "😀"}
		for n := 0; n < nr; n++ {
			var sb strings.Builder
			k := 1 + rng.Intn(24)
			for j := 0; j < k; j++ {
				sb.WriteString(pieces[rng.Intn(len(pieces))])
			}
			add("enc", sb.String())
		}
		// (4) evaluator validation: synthetic literal expressions, valid and invalid
		nl := 1500
		if c.Thorough {
			nl = 20000
		}
		esc := []string{`\a`, `\b`, `\f`, `\n`, `\r`, `\t`, `\v`, `\\`, `\"`, `\'`, `\x41`, `\xff`, `\x4`, `\xg1`, `\101`, `\377`, `\400`, `\08`, `\7`,
			`é`, `\u12`, `\ud800`, `\udfff`, ``, `￿`, `\U0001f600`, `\U00110000`, `\U0010ffff`, `\U0000d800`, `\q`, `\`, `A`, `\x00`, `\000`}
		plain := []string{"a", "b", "`", "'", " ", "\t", "\r", "$", "é", "+", "\n", "\"", "😀"}
		for n := 0; n < nl; n++ {
			var sb strings.Builder
			terms := 1 + rng.Intn(3)
			for t := 0; t < terms; t++ {
				if t > 0 {
					sb.WriteString([]string{"+", " + ", "  +\t", " +", "+ "}[rng.Intn(5)])
				}
				if rng.Intn(2) == 0 {
					sb.WriteString("`")
					k := rng.Intn(5)
					for j := 0; j < k; j++ {
						p := plain[rng.Intn(len(plain))]
						if p == "`" && rng.Intn(4) != 0 {
							p = "\\"
						}
						sb.WriteString(p)
					}
					sb.WriteString("`")
				} else {
					sb.WriteString("\"")
					k := rng.Intn(5)
					for j := 0; j < k; j++ {
						if rng.Intn(2) == 0 {
							sb.WriteString(esc[rng.Intn(len(esc))])
						} else {
							p := plain[rng.Intn(len(plain))]
							if (p == "\"" || p == "\n") && rng.Intn(5) != 0 {
								p = "x"
							}
							sb.WriteString(p)
						}
					}
					sb.WriteString("\"")
				}
			}
			if rng.Intn(20) == 0 {
				sb.WriteString([]string{" ", "+", "x", "`"}[rng.Intn(4)])
			}
			s := sb.String()
			if !utf8.ValidString(s) || strings.Contains(s, "\ufeff") {
				continue
			}
			add("lit", s)
		}
		_ = exhaustive
	}

	impl, err := pool.Map([]string{"C13", "-worker", "-out", scratchDir}, lines, 16)
	if err != nil {
		return err
	}
	// served half: GET <base>/<name> on compiled packages, 0..3 middlewares,
	// spec-file handler installed or not
	if c.Cases == "" {
		contents := []string{c13Doc, strings.ReplaceAll(c13Doc, "\n", "\r\n"), "a\\b", "`\"\\\n\r$a", "{\"openapi\":\"3.0.0\",\"x\":\"\\t\"}", "x\ny`z`\n"}
		// text that a formatting, templating or escaping step between the constant and the wire would alter
		contents = append(contents, "description: 15% off or 100%d free %s %v %% %!x\n", "{{ .BasePath }} {{/* x */}} ${HOME} $(id) \\u0041 &amp; <b>\n",
			strings.Repeat("long line ", 2000)+"\n", "tabs\tand\x0bvt\x0cff and \x7f del and \u00a0 nbsp \u2028 ls\n")
		if c.Thorough {
			for i := 0; i < 40 && i < len(lines); i++ {
				f := strings.Fields(lines[(i*97)%len(lines)])
				if f[1] == "enc" {
					contents = append(contents, unhx(f[2]))
				}
			}
		}
		var pkgs []*scratch.Pkg
		for i, ct := range contents {
			base := []string{"", "/v1", "/api/"}[i%3]
			doc := c13Doc
			if i%4 == 3 {
				doc = c13DocVar // (only the installed-handler requests are made against it: see below)
			}
			pkgs = append(pkgs, &scratch.Pkg{Name: fmt.Sprintf("s%03d", i), Doc: []byte(doc),
				Opts: gen.Options{API: true, DoNotEdit: true, SpecRaw: []byte(ct), BasePath: base, SpecName: "openapi.yaml"}})
		}
		root, err := mkRoot(c)
		if err != nil {
			return err
		}
		defer os.RemoveAll(root)
		m, err := scratch.New(root, pkgs)
		if err != nil {
			return err
		}
		m.AddDrivers()
		if err := m.Build(false); err != nil {
			return err
		}
		var send, slines []string
		for i, p := range pkgs {
			if !p.OK() {
				slines = append(slines, fmt.Sprintf("C13 srv %s 0 1", hx(contents[i])))
				send = append(send, "")
				continue
			}
			base := strings.TrimRight(p.Opts.BasePath, "/")
			for mw := 0; mw <= 3; mw++ {
				for sf := 0; sf <= 1; sf++ {
					if sf == 0 && string(p.Doc) == c13DocVar {
						continue // (without the spec-file handler the path is an ordinary request for /{id}: C03's business)
					}
					slines = append(slines, fmt.Sprintf("C13 srv %s %d %d", hx(contents[i]), mw, sf))
					// (three requests through one API value: the third answer is the observation)
					send = append(send, fmt.Sprintf("%s REQ mw=%d,sf=%d,rep=3 GET %s - -", p.Name, mw, sf, hx(base+"/openapi.yaml")))
				}
			}
		}
		res, err := m.Run(send)
		m.Close()
		if err != nil {
			return err
		}
		for i, r := range res {
			kv := map[string]string{}
			for _, t := range strings.Fields(r) {
				if j := strings.Index(t, "="); j > 0 {
					kv[t[:j]] = t[j+1:]
				}
			}
			b := kv["body"]
			if b == "" {
				b = "-"
			}
			if kv["status"] == "404" {
				b = "-"
			}
			lines = append(lines, slines[i])
			impl = append(impl, "impl="+b+"|"+kv["trace"])
			kinds["srv"]++
		}
	}
	if err := os.WriteFile(filepath.Join(c.Out, "cases.txt"), []byte(strings.Join(lines, "\n")+"\n"), 0o644); err != nil {
		return err
	}
	if err := os.WriteFile(filepath.Join(c.Out, "impl.txt"), []byte(strings.Join(impl, "\n")+"\n"), 0o644); err != nil {
		return err
	}
	inval := 0
	for _, l := range impl {
		if l == "impl=INVALID" {
			inval++
		}
	}
	meta := map[string]interface{}{"kinds": kinds, "impl_invalid": inval, "exhaustive_len_le4_over_7_symbols": 2801}
	bs, _ := json.MarshalIndent(meta, "", " ")
	return os.WriteFile(filepath.Join(c.Out, "meta.json"), bs, 0o644)
}

var _ = fmt.Sprintf
