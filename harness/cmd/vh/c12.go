package main

import (
	"crypto/sha256"
	"encoding/hex"
	"encoding/json"
	"fmt"
	"math/rand"
	"os"
	"path/filepath"
	"sort"
	"strings"

	"verifharness/internal/dialect"
	"verifharness/internal/gen"
	"verifharness/internal/pool"
)

func init() { commands["C12"] = runC12 }

// a spec with >= 4 entries in every map-typed OpenAPI construct
const c12Fat = `openapi: 3.0.0
info: {title: fat, version: "1"}
servers:
  - url: "https://{host}/{base}/{ver}/{tail}"
    variables:
      host: {default: example.com}
      base: {default: "{ver}"}
      ver: {default: v2}
      tail: {default: "{base}"}
security:
  - bearer: []
  - keyA: []
  - keyB: []
  - keyQ: []
paths:
  /pets/{id}:
    parameters:
      - {name: id, in: path, required: true, schema: {type: integer}}
      - {name: X-Trace, in: header, schema: {type: string}}
      - {name: X-Beta, in: header, schema: {type: string}}
      - {name: X-Alpha, in: header, schema: {type: string}}
      - {name: X-Delta, in: header, schema: {type: string}}
    get:
      parameters:
        - {name: q4, in: query, schema: {type: string}}
        - {name: q1, in: query, schema: {type: integer}}
        - {name: q3, in: query, schema: {type: boolean}}
        - {name: q2, in: query, schema: {type: number}}
        - {$ref: '#/components/parameters/Limit'}
      responses:
        "200":
          description: ok
          headers:
            X-D: {schema: {type: string}}
            X-A: {schema: {type: integer}}
            X-C: {schema: {type: string}}
            X-B: {schema: {type: string}}
          content:
            application/json:
              schema: {$ref: '#/components/schemas/Pet'}
        "404": {$ref: '#/components/responses/NotFound'}
        "401": {description: unauthorized}
        "500": {description: boom}
        default: {description: other}
    put:
      requestBody:
        content:
          application/json:
            schema: {$ref: '#/components/schemas/Animal'}
          application/json; charset=utf-8:
            schema: {$ref: '#/components/schemas/Pet'}
          application/json;charset=UTF-8:
            schema: {$ref: '#/components/schemas/Dog'}
          Application/JSON:
            schema: {$ref: '#/components/schemas/Cat'}
      responses:
        "204": {description: ok}
        "200":
          description: the media type names differ only by parameters and case
          content:
            application/json; charset=utf-8: {schema: {$ref: '#/components/schemas/Pet'}}
            application/json: {schema: {$ref: '#/components/schemas/Animal'}}
            application/JSON: {schema: {$ref: '#/components/schemas/Cat'}}
    delete:
      security: [{keyB: []}, {bearer: []}]
      responses:
        "204": {description: ok}
    post:
      requestBody: {$ref: '#/components/requestBodies/PetBody'}
      responses:
        "201": {description: ok}
  /alpha:
    get: {responses: {"200": {description: ok}}}
    post:
      requestBody:
        content:
          text/csv: {schema: {type: string, format: binary}}
          application/xml: {schema: {type: string, format: binary}}
          application/octet-stream: {schema: {type: string, format: binary}}
          text/plain: {schema: {type: string, format: binary}}
      responses:
        "200":
          description: ok
          content:
            text/plain: {schema: {type: string, format: binary}}
            application/pdf: {schema: {type: string, format: binary}}
            image/png: {schema: {type: string, format: binary}}
            application/zip: {schema: {type: string, format: binary}}
        default:
          description: other
          content:
            text/html: {schema: {type: string, format: binary}}
            application/json: {schema: {$ref: '#/components/schemas/Pet'}}
            text/plain: {schema: {type: string, format: binary}}
    put:
      requestBody: {$ref: '#/components/requestBodies/B5'}
      responses: {"204": {description: ok}}
  /beta:
    get: {responses: {"200": {description: ok}}}
  /gamma/{g}:
    parameters: [{name: g, in: path, required: true, schema: {type: string}}]
    get: {responses: {"200": {description: ok}}}
components:
  securitySchemes:
    keyQ: {type: apiKey, in: query, name: api_key}
    keyB: {type: apiKey, in: header, name: X-Key-B}
    bearer: {type: http, scheme: bearer}
    keyA: {type: apiKey, in: header, name: X-Key-A}
    oauth:
      type: oauth2
      flows:
        clientCredentials:
          tokenUrl: https://example.com/token
          scopes: {write: w, read: r, admin: a, list: l}
  parameters:
    Limit: {name: limit, in: query, schema: {type: integer}}
    Offset: {name: offset, in: query, schema: {type: integer}}
    Zeta: {name: X-Zeta, in: header, schema: {type: string}}
    PathP: {name: pp, in: path, required: true, schema: {type: string}}
  headers:
    H4: {schema: {type: string}}
    H1: {schema: {type: integer}}
    H3: {schema: {type: string}}
    H2: {schema: {type: boolean}}
  requestBodies:
    PetBody:
      content:
        application/json:
          schema: {$ref: '#/components/schemas/Pet'}
    B2: {content: {application/json: {schema: {$ref: '#/components/schemas/Cat'}}}}
    B3: {content: {application/octet-stream: {schema: {type: string, format: binary}}}}
    B4: {content: {application/json: {schema: {$ref: '#/components/schemas/Dog'}}}}
    B5:
      content:
        text/tab-separated-values: {schema: {type: string, format: binary}}
        application/x-ndjson: {schema: {type: string, format: binary}}
        application/msgpack: {schema: {type: string, format: binary}}
        application/cbor: {schema: {type: string, format: binary}}
  responses:
    NotFound: {description: not found}
    R2: {description: r2}
    R3: {description: r3}
    R4: {description: r4}
  schemas:
    Pet:
      type: object
      required: [name, id, tag, kind]
      properties:
        tag: {type: string}
        name: {type: string}
        kind: {type: string}
        id: {type: integer, format: int64}
        extra: {type: string}
    Cat:
      type: object
      required: [kind]
      properties: {kind: {type: string}, lives: {type: integer}, a: {type: string}, b: {type: string}}
    Dog:
      type: object
      required: [kind]
      properties: {kind: {type: string}, bark: {type: boolean}, c: {type: string}, d: {type: string}}
    Bird:
      type: object
      required: [kind]
      properties: {kind: {type: string}, wings: {type: integer}, e: {type: string}, f: {type: string}}
    Fish:
      type: object
      required: [kind]
      properties: {kind: {type: string}, fins: {type: integer}, g: {type: string}, h: {type: string}}
    Animal:
      oneOf:
        - {$ref: '#/components/schemas/Cat'}
        - {$ref: '#/components/schemas/Dog'}
        - {$ref: '#/components/schemas/Bird'}
        - {$ref: '#/components/schemas/Fish'}
      discriminator:
        propertyName: kind
        mapping:
          kitty: '#/components/schemas/Cat'
          KITTY: '#/components/schemas/Cat'
          Kitty: '#/components/schemas/Cat'
          PUP: '#/components/schemas/Dog'
          Pup: '#/components/schemas/Dog'
          c1: '#/components/schemas/Cat'
          c3: '#/components/schemas/Cat'
          c2: '#/components/schemas/Cat'
          pup: '#/components/schemas/Dog'
          d2: '#/components/schemas/Dog'
          d1: '#/components/schemas/Dog'
          tweety: '#/components/schemas/Bird'
          nemo: '#/components/schemas/Fish'
`

func dirHash(dir string) (string, error) {
	ents, err := os.ReadDir(dir)
	if err != nil {
		return "", err
	}
	var names []string
	for _, e := range ents {
		names = append(names, e.Name())
	}
	sort.Strings(names)
	h := sha256.New()
	for _, n := range names {
		bs, err := os.ReadFile(filepath.Join(dir, n))
		if err != nil {
			return "", err
		}
		fmt.Fprintf(h, "%s\x00%d\x00", n, len(bs))
		h.Write(bs)
	}
	return hex.EncodeToString(h.Sum(nil))[:16], nil
}

type c12Job struct {
	Doc  string // hex
	Runs int
	Opts gen.Options
	Dir  string
}

// worker: generate the document Runs times in this process, return the
// distinct output hashes (and whether generation failed)
func c12Worker(line string) string {
	var j c12Job
	if err := json.Unmarshal([]byte(line), &j); err != nil {
		return "ERROR bad job"
	}
	seen := map[string]bool{}
	for r := 0; r < j.Runs; r++ {
		d, err := os.MkdirTemp(j.Dir, "r")
		if err != nil {
			return "ERROR mkdtemp"
		}
		gerr, panicked, _ := gen.Generate([]byte(dialect.UnHx(j.Doc)), d, j.Opts)
		if panicked {
			os.RemoveAll(d)
			return "PANIC"
		}
		if gerr != nil {
			seen["ERR:"+dialect.Hx(gerr.Error())] = true
			os.RemoveAll(d)
			continue
		}
		h, err := dirHash(d)
		os.RemoveAll(d)
		if err != nil {
			return "ERROR hash"
		}
		seen[h] = true
		if j.Runs > 1 {
			// between two runs of the document, the same process generates ANOTHER document with every option the other way
			// round (CORS, do-not-edit, client, base path): nothing of that run may show in the next one
			if fd, err := os.MkdirTemp(j.Dir, "f"); err == nil {
				o2 := j.Opts
				o2.Cors, o2.DoNotEdit, o2.Client, o2.BasePath, o2.Package = !o2.Cors, !o2.DoNotEdit, !o2.Client, "/other/base", "foreign"
				gen.Generate([]byte(c19SpecWith), fd, o2)
				os.RemoveAll(fd)
			}
		}
	}
	var hs []string
	for h := range seen {
		hs = append(hs, h)
	}
	sort.Strings(hs)
	return strings.Join(hs, ",")
}

func runC12(c runCfg) error {
	if c.Worker {
		pool.Serve(c12Worker)
		return nil
	}
	scratchDir, err := os.MkdirTemp(c.Out, "scratch")
	if err != nil {
		return err
	}
	defer os.RemoveAll(scratchDir)
	type spec struct {
		name string
		doc  []byte
		opts gen.Options
	}
	var specs []spec
	if c.Cases != "" {
		ls, err := readLines(c.Cases)
		if err != nil {
			return err
		}
		for _, l := range ls {
			f := strings.Fields(l)
			if len(f) >= 4 && f[0] == "C12" {
				var o gen.Options
				json.Unmarshal([]byte(dialect.UnHx(f[3])), &o)
				specs = append(specs, spec{f[1], []byte(dialect.UnHx(f[2])), o})
			}
		}
	} else {
		specs = append(specs, spec{"fat-client", []byte(c12Fat), gen.Options{API: true, Client: true, DoNotEdit: true, Cors: true}})
		specs = append(specs, spec{"fat", []byte(c12Fat), gen.Options{API: true, DoNotEdit: false}})
		// documents the generator refuses: the refusal (its text included) must be the same on every run
		head := `{"openapi":"3.0.0","info":{"title":"t","version":"1"},`
		ok200 := `"responses":{"200":{"description":"ok"}}`
		for n, d := range []string{
			// one requirement naming four schemes
			head + `"paths":{"/a":{"get":{"security":[{"k4":[],"k2":[],"k3":[],"k1":[]}],` + ok200 + `}}},"components":{"securitySchemes":{` +
				`"k1":{"type":"apiKey","in":"header","name":"X-K1"},"k2":{"type":"apiKey","in":"header","name":"X-K2"},` +
				`"k3":{"type":"apiKey","in":"header","name":"X-K3"},"k4":{"type":"apiKey","in":"header","name":"X-K4"}}}}`,
			// several clashing declarations at once
			head + `"paths":{"/a":{"get":{` + ok200 + `}}},"components":{"schemas":{"API":{"type":"object"},"Maybe":{"type":"object"},"Nullable":{"type":"object"},"Client":{"type":"object"},"string":{"type":"object"}}}}`,
			// several discriminator mappings that do not name a variant
			head + `"paths":{"/a":{"get":{` + ok200 + `}}},"components":{"schemas":{"A":{"type":"object","properties":{"k":{"type":"string"}}},"B":{"type":"object","properties":{"k":{"type":"string"}}},` +
				`"One":{"oneOf":[{"$ref":"#/components/schemas/A"},{"$ref":"#/components/schemas/B"}],"discriminator":{"propertyName":"k","mapping":{"z":"Nope","y":"Nada","x":"Nil","w":"None"}}}}}}`,
			// several undeclared path variables and several unsupported parameter shapes
			head + `"paths":{"/a/{p}/{q}/{r}/{s}":{"get":{` + ok200 + `}}}}`,
		} {
			specs = append(specs, spec{fmt.Sprintf("refused-%d", n), []byte(d), gen.Options{API: true, Client: true, DoNotEdit: true}})
		}
		// every fixture spec of the repository
		fix, _ := filepath.Glob("/repo/tests/*/openapi.yaml")
		for _, p := range fix {
			if bs, err := os.ReadFile(p); err == nil {
				specs = append(specs, spec{"fixture-" + filepath.Base(filepath.Dir(p)), bs, gen.Options{API: true, Client: true, DoNotEdit: true}})
			}
		}
		// seeded corpus specs from the other families
		rng := rand.New(rand.NewSource(c.Seed))
		g := &jgen{rng: rng}
		nj := 6
		if c.Thorough {
			nj = 40
		}
		for i := 0; i < nj; i++ {
			sp := &dialect.Spec{}
			var comps []dialect.Prop
			for t := 0; t < 6; t++ {
				s := g.object(2, true)
				s.Ref = fmt.Sprintf("T%d", t)
				s.Dialect(&comps)
			}
			sp.CompSchemas = comps
			sp.Paths = []*dialect.PathItem{{Raw: "/x", Ops: []*dialect.Op{{Method: "GET", Responses: []dialect.Response{{Status: "200"}}}}}}
			specs = append(specs, spec{fmt.Sprintf("json-%d", i), sp.Doc(), gen.Options{API: true, Client: true, DoNotEdit: true}})
		}
	}
	inproc, fresh := 8, 3
	if c.Thorough {
		inproc, fresh = 40, 10
	}
	// jobs: one in-process batch + `fresh` single-run processes per spec
	var jobs []string
	var owner []int
	for i, s := range specs {
		mk := func(runs int) string {
			o := s.opts
			o.Package = "test"
			bs, _ := json.Marshal(c12Job{Doc: dialect.Hx(string(s.doc)), Runs: runs, Opts: o, Dir: scratchDir})
			return string(bs)
		}
		jobs = append(jobs, mk(inproc))
		owner = append(owner, i)
		for k := 0; k < fresh; k++ {
			jobs = append(jobs, mk(1))
			owner = append(owner, i)
		}
	}
	// each job in its own fresh process: pool with as many workers as jobs would reuse
	// processes, so run the single-run jobs through separate pools
	res := make([]string, len(jobs))
	for start := 0; start < len(jobs); start += 16 {
		end := start + 16
		if end > len(jobs) {
			end = len(jobs)
		}
		r, err := pool.Map([]string{"C12", "-worker"}, jobs[start:end], end-start)
		if err != nil {
			return err
		}
		copy(res[start:end], r)
	}
	distinct := make([]map[string]bool, len(specs))
	for i := range distinct {
		distinct[i] = map[string]bool{}
	}
	for j, r := range res {
		for _, h := range strings.Split(r, ",") {
			distinct[owner[j]][h] = true
		}
	}
	var cases, impl []string
	total := 0
	for i, s := range specs {
		ob, _ := json.Marshal(s.opts)
		cases = append(cases, fmt.Sprintf("C12 %s %s %s", s.name, dialect.Hx(string(s.doc)), dialect.Hx(string(ob))))
		var hs []string
		for h := range distinct[i] {
			hs = append(hs, h)
		}
		sort.Strings(hs)
		out := fmt.Sprintf("impl=%d", len(hs))
		for _, h := range hs {
			if h == "PANIC" || strings.HasPrefix(h, "ERROR") || strings.HasPrefix(h, "CRASH") {
				out = "impl=" + h
			}
		}
		if len(hs) == 1 && strings.HasPrefix(hs[0], "ERR:") {
			out = "impl=1 rejected=" + hs[0][4:]
		}
		if len(hs) > 1 {
			out += " outputs=" + strings.Join(hs, "+")
		}
		impl = append(impl, out)
		total += inproc + fresh
	}
	os.WriteFile(filepath.Join(c.Out, "cases.txt"), []byte(strings.Join(cases, "\n")+"\n"), 0o644)
	os.WriteFile(filepath.Join(c.Out, "impl.txt"), []byte(strings.Join(impl, "\n")+"\n"), 0o644)
	meta := map[string]interface{}{"specs": len(specs), "runs_per_spec_in_process": inproc, "runs_per_spec_fresh_process": fresh, "generator_runs": total}
	bs, _ := json.MarshalIndent(meta, "", " ")
	return os.WriteFile(filepath.Join(c.Out, "meta.json"), bs, 0o644)
}
