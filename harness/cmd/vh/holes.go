package main

import (
	"fmt"
	"os"
	"path/filepath"
	"sort"
	"strings"
	"text/template"
	"text/template/parse"
)

func init() { commands["holes"] = runHoles }

// runHoles is the C01 translator (DESIGN section 4, C01, layer 2): from
// /repo's current generator/*.gotmpl it inventories every template action
// that writes text into the generated Go source (a "hole"), together with the
// lexical context of the Go text around it — code, glued to an identifier,
// inside an interpreted / raw string literal, inside a rune literal, after
// `//`, inside `/* */` — and the function applied last to the value
// ("comment", "title", "private", ... or "-"), and writes
// coq/theories/Gen/HoleSites.v.  The context is computed by a small Go lexer
// state machine run over the literal text of each {{define}} in order; both
// branches of {{if}}/{{range}}/{{with}} start from the state at the branch
// point and the text after {{end}} continues from the state at the end of the
// first branch (a template whose branches end in different states is listed
// as such).
type holeSite struct {
	file, tmpl, pipe, ctx, fn string
	line                      int
}

const (
	lxCode = iota
	lxStr
	lxStrEsc
	lxRaw
	lxRune
	lxRuneEsc
	lxLine
	lxBlock
)

type lexState struct {
	st       int
	prev     byte // last byte of literal text seen (0 at the start, or after a hole)
	pendStar bool // inside a block comment, the last byte was '*'
}

func isIdentByte(c byte) bool {
	return c == '_' || (c >= '0' && c <= '9') || (c >= 'a' && c <= 'z') || (c >= 'A' && c <= 'Z')
}

func (l *lexState) feed(text string) {
	for i := 0; i < len(text); i++ {
		c := text[i]
		switch l.st {
		case lxCode:
			switch {
			case c == '"':
				l.st = lxStr
			case c == '`':
				l.st = lxRaw
			case c == '\'':
				l.st = lxRune
			case c == '/' && l.prev == '/':
				l.st = lxLine
			case c == '*' && l.prev == '/':
				l.st = lxBlock
				l.pendStar = false
				c = 0 // "/*/" does not close the comment
			}
		case lxStr:
			switch c {
			case '\\':
				l.st = lxStrEsc
			case '"', '\n':
				l.st = lxCode
			}
		case lxStrEsc:
			l.st = lxStr
		case lxRaw:
			if c == '`' {
				l.st = lxCode
			}
		case lxRune:
			switch c {
			case '\\':
				l.st = lxRuneEsc
			case '\'', '\n':
				l.st = lxCode
			}
		case lxRuneEsc:
			l.st = lxRune
		case lxLine:
			if c == '\n' {
				l.st = lxCode
			}
		case lxBlock:
			if c == '/' && l.pendStar {
				l.st = lxCode
			}
			l.pendStar = c == '*'
		}
		l.prev = c
	}
}

func (l *lexState) name() string {
	switch l.st {
	case lxStr, lxStrEsc:
		return "Str"
	case lxRaw:
		return "Raw"
	case lxRune, lxRuneEsc:
		return "Rune"
	case lxLine:
		return "LineComment"
	case lxBlock:
		return "BlockComment"
	}
	return "Code"
}

// lastFunc is the function or method applied last in a pipeline: the
// identifier heading its final command ("comment", "title", "call", ...), "-"
// for a bare field / variable / dot.
func lastFunc(p *parse.PipeNode) string {
	if p == nil || len(p.Cmds) == 0 {
		return "-"
	}
	c := p.Cmds[len(p.Cmds)-1]
	if len(c.Args) == 0 {
		return "-"
	}
	if id, ok := c.Args[0].(*parse.IdentifierNode); ok {
		return id.Ident
	}
	return "-"
}

// templateNames lists the {{define}}s of /repo/generator/*.gotmpl
func templateNames() []string {
	files, _ := filepath.Glob("/repo/generator/*.gotmpl")
	var out []string
	for _, f := range files {
		src, err := os.ReadFile(f)
		if err != nil {
			continue
		}
		tr := parse.New(filepath.Base(f))
		tr.Mode = parse.SkipFuncCheck
		trees := map[string]*parse.Tree{}
		if _, err := tr.Parse(string(src), "", "", trees); err != nil {
			continue
		}
		for n := range trees {
			if n != filepath.Base(f) {
				out = append(out, n)
			}
		}
	}
	sort.Strings(out)
	return out
}

func runHoles(c runCfg) error {
	dir := "/repo/generator"
	files, err := filepath.Glob(filepath.Join(dir, "*.gotmpl"))
	if err != nil {
		return err
	}
	sort.Strings(files)
	var sites []holeSite
	var unbalanced []string
	nT := 0
	for _, f := range files {
		src, err := os.ReadFile(f)
		if err != nil {
			return err
		}
		t := template.New(filepath.Base(f))
		t.Tree = nil
		tr := parse.New(filepath.Base(f))
		tr.Mode = parse.SkipFuncCheck
		trees := map[string]*parse.Tree{}
		if _, err := tr.Parse(string(src), "", "", trees); err != nil {
			return fmt.Errorf("parse %s: %v", f, err)
		}
		var names []string
		for n := range trees {
			names = append(names, n)
		}
		sort.Strings(names)
		for _, n := range names {
			tree := trees[n]
			if tree.Root == nil {
				continue
			}
			if n == filepath.Base(f) {
				// the text between the {{define}}s of a file is never executed (only named templates are)
				continue
			}
			nT++
			lx := &lexState{}
			var walk func(list *parse.ListNode)
			var pending *holeSite // the last hole, waiting to learn whether identifier text follows it
			walk = func(list *parse.ListNode) {
				if list == nil {
					return
				}
				for _, node := range list.Nodes {
					switch x := node.(type) {
					case *parse.TextNode:
						txt := string(x.Text)
						if pending != nil {
							if len(txt) > 0 && isIdentByte(txt[0]) && pending.ctx == "Code" {
								pending.ctx = "Ident"
							}
							pending = nil
						}
						lx.feed(txt)
					case *parse.ActionNode:
						if len(x.Pipe.Decl) > 0 {
							continue // {{ $x := ... }} writes nothing
						}
						h := holeSite{file: filepath.Base(f), tmpl: n, pipe: x.Pipe.String(), ctx: lx.name(), fn: lastFunc(x.Pipe)}
						h.line = strings.Count(string(src[:int(x.Pos)]), "\n") + 1
						if h.ctx == "Code" && isIdentByte(lx.prev) {
							h.ctx = "Ident"
						}
						sites = append(sites, h)
						pending = &sites[len(sites)-1]
						lx.prev = 0
					case *parse.TemplateNode:
						pipe := "."
						if x.Pipe != nil {
							pipe = x.Pipe.String()
						}
						h := holeSite{file: filepath.Base(f), tmpl: n, pipe: "template " + x.Name + " " + pipe, ctx: lx.name(), fn: "template"}
						h.line = strings.Count(string(src[:int(x.Pos)]), "\n") + 1
						sites = append(sites, h)
						pending = nil
						lx.prev = 0
					case *parse.IfNode:
						pending = nil
						start := *lx
						walk(x.List)
						end := *lx
						if x.ElseList != nil {
							*lx = start
							walk(x.ElseList)
							if lx.st != end.st {
								unbalanced = append(unbalanced, fmt.Sprintf("%s:%s:else:%s>%s", filepath.Base(f), n, end.name(), lx.name()))
							}
						} else if start.st != end.st {
							unbalanced = append(unbalanced, fmt.Sprintf("%s:%s:%s>%s", filepath.Base(f), n, start.name(), end.name()))
						}
						*lx = end
						pending = nil
					case *parse.RangeNode:
						pending = nil
						start := *lx
						walk(x.List)
						end := *lx
						if x.ElseList != nil {
							*lx = start
							walk(x.ElseList)
						}
						if start.st != end.st {
							unbalanced = append(unbalanced, fmt.Sprintf("%s:%s:range:%s>%s", filepath.Base(f), n, start.name(), end.name()))
						}
						*lx = end
						pending = nil
					case *parse.WithNode:
						pending = nil
						start := *lx
						walk(x.List)
						end := *lx
						if x.ElseList != nil {
							*lx = start
							walk(x.ElseList)
						}
						*lx = end
						pending = nil
					}
				}
			}
			walk(tree.Root)
		}
	}
	// Code / Ident holes are summarised per (file, pipe-mentions-free-text); the others are listed one by one
	q := func(s string) string { return `"` + strings.ReplaceAll(s, `"`, `""`) + `"` }
	var b strings.Builder
	b.WriteString("(* REGENERATED on every run by `vh holes` from /repo's current generator/*.gotmpl:\n   every template action that writes into the generated Go source, with the\n   lexical context of the Go text around it and the function applied last.\n   Do not edit. *)\n")
	b.WriteString("From Coq Require Import String List.\nImport ListNotations.\nLocal Open Scope string_scope.\n\n")
	b.WriteString("Inductive hole_ctx := HCode | HIdent | HStr | HRaw | HRune | HLineComment | HBlockComment.\n\n")
	b.WriteString("(* file, {{define}} name, pipeline, context, last function *)\n")
	b.WriteString("Definition observed_holes : list (string * string * string * hole_ctx * string) :=\n  [")
	for i, s := range sites {
		if i > 0 {
			b.WriteString(";\n   ")
		}
		fmt.Fprintf(&b, "(%s, %s, %s, H%s, %s)", q(s.file), q(s.tmpl), q(s.pipe), s.ctx, q(s.fn))
	}
	b.WriteString("].\n\n(* {{define}}s whose branches leave the Go lexer in different states *)\nDefinition observed_unbalanced : list string :=\n  [")
	sort.Strings(unbalanced)
	{
		var u2 []string
		for i, u := range unbalanced {
			if i == 0 || u != unbalanced[i-1] {
				u2 = append(u2, u)
			}
		}
		unbalanced = u2
	}
	for i, u := range unbalanced {
		if i > 0 {
			b.WriteString("; ")
		}
		b.WriteString(q(u))
	}
	b.WriteString("].\n")
	out := c.Out
	if out == "" {
		out = "/verif/coq/theories/Gen"
	}
	dst := filepath.Join(out, "HoleSites.v")
	old, _ := os.ReadFile(dst)
	if string(old) != b.String() {
		if err := os.WriteFile(dst, []byte(b.String()), 0o644); err != nil {
			return err
		}
	}
	var tb strings.Builder
	count := map[string]int{}
	for _, s := range sites {
		count[s.ctx]++
		fmt.Fprintf(&tb, "%s:%d %s [%s] fn=%s  {{%s}}\n", s.file, s.line, s.tmpl, s.ctx, s.fn, s.pipe)
	}
	os.WriteFile(filepath.Join(out, "HoleSites.txt"), []byte(tb.String()), 0o644)
	fmt.Printf("holes: %d templates, %d holes %v, %d unbalanced\n", nT, len(sites), count, len(unbalanced))
	return nil
}
