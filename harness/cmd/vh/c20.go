package main

// C20: concurrent requests are isolated and race-free. Packages whose every
// operation answers 200 with an X-Echo header are built with the race detector;
// G goroutines call random operations through ONE API value and ONE generated
// client, each call with values no other call carries; the handler answers with
// a digest of what it parsed, the caller compares it with what it sent. The
// run is repeated under GOMAXPROCS 1, 4 and 16.

import (
	"fmt"
	"math/rand"
	"os"
	"strings"

	"verifharness/internal/dialect"
	"verifharness/internal/scratch"
)

func init() { commands["C20"] = runC20 }

func c20Package(rng *rand.Rand, idx int) rcase {
	g := &jgen{rng: rng, noNullAny: true}
	sp := &dialect.Spec{}
	bf := baseForms[idx%len(baseForms)]
	sp.ServerURL, sp.ServerVar, sp.MoreServers = bf.Server, bf.Vars, bf.More
	sp.Schemes = []dialect.Scheme{{Name: "bearer", Kind: "bearer"}, {Name: "key", Kind: "keyheader", Param: "X-Api-Key"}}
	echo := dialect.Response{Status: "200", Headers: []dialect.Header{{Name: "X-Echo", Required: true, Schema: &dialect.Schema{Type: "string"}}}}
	nops := 4 + rng.Intn(4)
	for oi := 0; oi < nops; oi++ {
		raw := fmt.Sprintf("/c%d", oi)
		pi := &dialect.PathItem{}
		for v := 0; v < rng.Intn(3); v++ {
			name := fmt.Sprintf("pv%d", v)
			raw += "/{" + name + "}"
			sc := []func() *dialect.Schema{paramSchemas[0], paramSchemas[1], paramSchemas[3], paramSchemas[7]}[rng.Intn(4)]()
			pi.Params = append(pi.Params, dialect.Param{Name: name, In: "path", Required: true, Schema: sc})
		}
		pi.Raw = raw
		resp := echo
		switch oi % 4 {
		case 1:
			// array-valued response headers (answered from a slice shared by every request)
			resp.Headers = append(append([]dialect.Header{}, echo.Headers...), dialect.Header{Name: "X-Tags", Required: true, Schema: &dialect.Schema{Type: "array", Items: &dialect.Schema{Type: "string"}}})
		case 3:
			resp.Headers = append(append([]dialect.Header{}, echo.Headers...), dialect.Header{Name: "X-Nums", Required: true, Schema: &dialect.Schema{Type: "array", Items: &dialect.Schema{Type: "integer", Format: "int64"}}})
		}
		if oi%3 == 2 {
			// a JSON body with arrays of arrays defined in place (answered from a table shared by every request)
			grid := &JS{Kind: "obj", Members: []JM{
				{Name: "grid", Req: true, S: &JS{Kind: "arr", Inner: &JS{Kind: "arr", Inner: &JS{Kind: "int", Bits: 64}}}},
				{Name: "id", Req: true, S: &JS{Kind: "str"}},
				{Name: "rows", Req: false, S: &JS{Kind: "arr", Inner: &JS{Kind: "arr", Inner: &JS{Kind: "arr", Inner: &JS{Kind: "str"}}}}},
			}}
			resp.Content, resp.Schema = "application/json", grid.Dialect(&sp.CompSchemas)
		} else if rng.Intn(2) == 0 {
			// a raw (non-JSON) body next to the echo header: the handler streams a body derived from the digest
			resp.Content, resp.Schema = "application/octet-stream", &dialect.Schema{Type: "string", Format: "binary"}
		}
		o := &dialect.Op{Method: []string{"GET", "POST", "PUT"}[rng.Intn(3)], Responses: []dialect.Response{resp}}
		if oi == 1 {
			// a oneOf request body whose variants overlap: every Group document also fits User (a decoder that remembers which
			// variant another request chose would hand this request the wrong one)
			o.Method = "POST"
			str := &dialect.Schema{Type: "string"}
			sp.CompSchemas = append(sp.CompSchemas,
				dialect.Prop{Name: "Group", Schema: &dialect.Schema{Type: "object", Required: []string{"members", "name"}, Props: []dialect.Prop{{Name: "members", Schema: &dialect.Schema{Type: "array", Items: str}}, {Name: "name", Schema: str}}}},
				dialect.Prop{Name: "User", Schema: &dialect.Schema{Type: "object", Required: []string{"name"}, Props: []dialect.Prop{{Name: "name", Schema: str}}}},
				dialect.Prop{Name: "EitherBody", Schema: &dialect.Schema{OneOf: []*dialect.Schema{{Ref: "Group"}, {Ref: "User"}}}})
			o.Body = &dialect.Body{Content: "application/json", Schema: &dialect.Schema{Ref: "EitherBody"}, Required: true}
		}
		for k := 0; k < 1+rng.Intn(4); k++ {
			in := []string{"query", "query", "header"}[rng.Intn(3)]
			sc := paramSchemas[rng.Intn(len(paramSchemas))]()
			name := fmt.Sprintf("q%d", k)
			if in == "header" {
				name = fmt.Sprintf("X-H%d", k)
			} else if rng.Intn(3) == 0 {
				sc = &dialect.Schema{Type: "array", Items: sc}
			}
			o.Params = append(o.Params, dialect.Param{Name: name, In: in, Required: rng.Intn(2) == 0, Schema: sc})
		}
		if o.Method != "GET" && o.Body == nil && rng.Intn(3) != 0 {
			body := g.object(2, false) // (no embedded members with additionalProperties: D28 is not this property's business)
			if rng.Intn(2) == 0 {
				body.Ref = g.name()
			}
			switch rng.Intn(3) {
			case 0:
				// an array component (its MarshalJSON/UnmarshalJSON are generated code of their own)
				if body.Ref == "" {
					body.Ref = g.name()
				}
				body = &JS{Kind: "arr", Inner: body, Ref: g.name()}
			case 1:
				body = &JS{Kind: "arr", Inner: body}
				if body.Inner.Ref == "" {
					body.Inner.Ref = g.name()
				}
			}
			o.Body = &dialect.Body{Content: "application/json", Schema: body.Dialect(&sp.CompSchemas), Required: true}
		}
		switch rng.Intn(3) {
		case 0:
			sec := []dialect.Requirement{{"bearer"}}
			o.Security = &sec
		case 1:
			sec := []dialect.Requirement{{"key"}, {"bearer"}}
			o.Security = &sec
		}
		pi.Ops = []*dialect.Op{o}
		sp.Paths = append(sp.Paths, pi)
	}
	return rcase{Pkg: fmt.Sprintf("p%04d", idx), Spec: sp, FlagBase: bf.Flag, Client: true, Cors: rng.Intn(2) == 0}
}

func runC20(c runCfg) error {
	rng := rand.New(rand.NewSource(c.Seed))
	var pkgs []*scratch.Pkg
	var lines []string
	if c.Cases != "" {
		ls, err := readLines(c.Cases)
		if err != nil {
			return err
		}
		lines = ls
		pkgs = pkgsFromDLines(lines)
	} else {
		npk, g, it := 4, 16, 60
		if c.Thorough {
			npk, g, it = 16, 64, 200
		}
		for i := 0; i < npk; i++ {
			rc := c20Package(rng, i)
			p := rc.ScratchPkg()
			pkgs = append(pkgs, p)
			lines = append(lines, DLine(p))
			for _, procs := range []int{1, 4, 16} {
				lines = append(lines, fmt.Sprintf("CONC %s %d %d %d #procs=%d", p.Name, g, it, c.Seed*10+int64(procs), procs))
			}
		}
	}
	root, err := mkRoot(c)
	if err != nil {
		return err
	}
	defer rmRoot(root)
	m, err := scratch.New(root, pkgs)
	if err != nil {
		return err
	}
	m.AddDrivers()
	if err := m.Build(true); err != nil { // -race
		return err
	}
	byName := map[string]*scratch.Pkg{}
	for _, p := range pkgs {
		byName[p.Name] = p
	}
	impl := make([]string, len(lines))
	for i, l := range lines {
		f := strings.Split(l, " ")
		if f[0] != "CONC" || len(f) < 6 {
			impl[i] = "SKIP"
			continue
		}
		p := byName[f[1]]
		if p == nil || !p.OK() {
			impl[i] = "SKIP pkg-unavailable"
			continue
		}
		procs := strings.TrimPrefix(f[5], "#procs=")
		// one driver process per line: the race detector's report goes to its stderr
		out, stderr, err := m.RunOnce([]string{fmt.Sprintf("%s CONC %s %s %s", f[1], f[2], f[3], f[4])}, []string{"GOMAXPROCS=" + procs, "GORACE=halt_on_error=0 exitcode=0"})
		if err != nil {
			return err
		}
		races := strings.Count(stderr, "WARNING: DATA RACE")
		impl[i] = out[0] + fmt.Sprintf(" races=%d", races)
		if races > 0 {
			rep := stderr
			if len(rep) > 6000 {
				rep = rep[:6000]
			}
			impl[i] += " report=" + dialect.Hx(rep)
		}
	}
	_ = os.Stderr
	meta := map[string]interface{}{"packages_planned": len(pkgs)}
	return writeFam(c, &famResult{Cases: lines, Impl: impl, Pkgs: pkgs}, meta)
}
