package main

// C14: the generated server never panics and always answers. Kitchen-sink and
// random packages (typed path variables, query/header parameters of every type,
// JSON and raw bodies, security, CORS, base paths, responses with headers and
// bodies) are hit with structured and mutated requests; the driver recovers
// around ServeHTTP and around Parse() and counts WriteHeader calls.

import (
	"fmt"
	"math/rand"
	"net/url"
	"strings"

	"verifharness/internal/dialect"
	"verifharness/internal/scratch"
)

func init() { commands["C14"] = runC14 }

type c14op struct {
	pi    *dialect.PathItem
	o     *dialect.Op
	body  *JS
	plans []c10plan // one per response of o, in o.Responses order
	extra []string  // further request documents (bodies that are not described by a JS value: oneOf)
}

// c14Wide: C14's own documents also use shapes the other users of c14Package (C18, the translators) leave alone: a oneOf
// body with a discriminator mapping, arrays of arrays as query parameters
var c14Wide bool

// c14Target: the component schema a parameter schema written as a $ref stands for
var c14Target = map[*dialect.Schema]*dialect.Schema{}

// documents for the oneOf request body of c14Package (VarA: kind, a required, meta any; VarB: kind, b required)
var c14OneOfDocs = []string{
	`{"kind":"a","a":"x"}`, `{"kind":"b","b":1}`, `{"a":"x","kind":"a","meta":{"deep":[1,{"x":null}],"s":"t"}}`, `{"kind":"b","b":-9223372036854775808}`,
	`{"kind":"a","a":"x"}`, `{"kind":"b","b":1}`, `{"kind":"c"}`, `{"kind":"a","a":"x","b":1}`, `{"kind":1,"a":"x"}`, `{"kind":"a"}`, `{"kind":"b","b":"str"}`,
	`{"kind":"A","a":"x"}`, `{"Kind":"a","a":"x"}`, `{"kind":null,"a":"x"}`, `{"a":"x"}`, `{"b":2}`, `{"kind":"b","b":1.5}`, `{"kind":"b","b":1e400}`,
	`{"kind":"a","a":"x","meta":null}`, `{"kind":"a","a":null}`, `{"kind":["a"],"a":"x"}`, `{"kind":"a","a":"x","kind":"b"}`, `{"kind":"b","b":1,"zz":{}}`,
}

// c14RefAllPrims: primitive properties and items of the bodies are components used by $ref (C18's reference-rich documents)
var c14RefAllPrims bool

// c14Package: one random kitchen-sink document
func c14Package(rng *rand.Rand, idx int) (rcase, []c14op) {
	g := &jgen{rng: rng, noNullAny: true, refAllPrims: c14RefAllPrims, aliasAllEmbeds: idx%2 == 1}
	sp := &dialect.Spec{CompParams: map[string]dialect.Param{}, CompResponses: map[string]dialect.Response{}, CompHeaders: map[string]dialect.Header{}}
	bf := baseForms[idx%len(baseForms)]
	sp.ServerURL, sp.ServerVar, sp.MoreServers = bf.Server, bf.Vars, bf.More
	// security schemes
	sp.Schemes = []dialect.Scheme{{Name: "bearer", Kind: "bearer"}, {Name: "key", Kind: "keyheader", Param: "X-Api-Key"}, {Name: "qkey", Kind: "keyquery", Param: "api_key"}}
	if rng.Intn(2) == 0 {
		sp.Global, sp.HasGlobal = []dialect.Requirement{{"bearer"}, {"key"}}, true
	}
	var ops []c14op
	var junk []string
	nbody := 0
	// component responses shared between operations, under different status codes, one of them through an alias
	type sharedResp struct {
		name string
		pl   c10plan
	}
	var shared []sharedResp
	for _, name := range []string{"NotFound", "Conflict"} {
		r, pl := g.c10Response(sp, name, &junk, "")
		sp.CompResponses[name] = r
		shared = append(shared, sharedResp{name, pl})
	}
	sp.CompResponses["Gone"] = dialect.Response{Ref: "NotFound"}
	shared = append(shared, sharedResp{"Gone", shared[0].pl})
	nops := 4 + rng.Intn(4)
	tmpls := []string{"/items", "/items/{id}", "/items/{id}/parts/{part}", "/", "/a/b/", "/{x}", "/{x}/{y}", "/files/{name}/raw", "/items/{id}/", "/search"}
	used := map[string]bool{}
	for len(ops) < nops {
		raw := tmpls[rng.Intn(len(tmpls))]
		key := equivKey(raw)
		if used[key] {
			continue
		}
		used[key] = true
		pi := &dialect.PathItem{Raw: raw}
		for _, seg := range strings.Split(raw, "/") {
			if strings.HasPrefix(seg, "{") {
				pi.Params = append(pi.Params, dialect.Param{Name: seg[1 : len(seg)-1], In: "path", Required: true, Schema: paramSchemas[rng.Intn(len(paramSchemas))]()})
			}
		}
		mset := [][]string{{"GET"}, {"POST"}, {"GET", "POST"}, {"PUT", "DELETE"}, {"GET", "PATCH", "OPTIONS"}}[rng.Intn(5)]
		if len(sp.Paths) < 3 {
			// the first three path items have an operation with a body, whatever the seed (see nbody below)
			mset = [][]string{{"POST"}, {"PUT", "DELETE"}, {"GET", "PATCH", "OPTIONS"}}[len(sp.Paths)]
		}
		for _, m := range mset {
			o := &dialect.Op{Method: m}
			for k := 0; k < rng.Intn(5); k++ {
				in := []string{"query", "query", "header"}[rng.Intn(3)]
				sc := paramSchemas[rng.Intn(len(paramSchemas))]()
				if rng.Intn(5) == 0 {
					sc.Nullable = true
				}
				// a quarter of the schemas (of scalars and of array items) are components used by $ref
				viaRef := func(t *dialect.Schema) *dialect.Schema {
					if t.Nullable || rng.Intn(4) != 0 {
						return t
					}
					cn := fmt.Sprintf("PS%d", len(sp.CompSchemas))
					sp.CompSchemas = append(sp.CompSchemas, dialect.Prop{Name: cn, Schema: t})
					r := &dialect.Schema{Ref: cn}
					c14Target[r] = t
					return r
				}
				sc = viaRef(sc)
				if rng.Intn(3) == 0 {
					sc = &dialect.Schema{Type: "array", Items: sc}
					if c14Wide && in == "query" && rng.Intn(4) == 0 {
						sc = &dialect.Schema{Type: "array", Items: sc}
					} else if sc.Items.Ref == "" && rng.Intn(6) == 0 {
						// the array itself as a component
						sc = viaRef(sc)
					}
				}
				name := fmt.Sprintf("q%d", k)
				if in == "header" {
					name = fmt.Sprintf("X-H%d", k)
				}
				o.Params = append(o.Params, dialect.Param{Name: name, In: in, Required: rng.Intn(2) == 0, Schema: sc})
			}
			var body *JS
			var extra []string
			if m != "GET" && m != "DELETE" && m != "OPTIONS" {
				// the first three bodies of a document, whatever the seed: an object composed with allOf whose first member is a
				// $ref (through an alias component in every other document), an array of objects with optional properties, a oneOf
				pick := rng.Intn(5)
				if nbody < 3 {
					pick = []int{0, 2, 4}[nbody]
				}
				g.forceEmbed = nbody == 0
				nbody++
				switch pick {
				case 4:
					// a oneOf body: two object components told apart by a required key (and by a discriminator in C14's own
					// documents); VarA has a property that is a component without a type (any)
					if !hasProp(sp.CompSchemas, "VarA") {
						str, i64 := &dialect.Schema{Type: "string"}, &dialect.Schema{Type: "integer", Format: "int64"}
						sp.CompSchemas = append(sp.CompSchemas,
							dialect.Prop{Name: "AnyMeta", Schema: &dialect.Schema{}},
							dialect.Prop{Name: "VarA", Schema: &dialect.Schema{Type: "object", Required: []string{"a", "kind"}, Props: []dialect.Prop{{Name: "a", Schema: str}, {Name: "kind", Schema: str}, {Name: "meta", Schema: &dialect.Schema{Ref: "AnyMeta"}}}}},
							dialect.Prop{Name: "VarB", Schema: &dialect.Schema{Type: "object", Required: []string{"b", "kind"}, Props: []dialect.Prop{{Name: "b", Schema: i64}, {Name: "kind", Schema: str}}}})
					}
					one := &dialect.Schema{OneOf: []*dialect.Schema{{Ref: "VarA"}, {Ref: "VarB"}}}
					if c14Wide && rng.Intn(2) == 0 {
						one.DiscProp, one.DiscMap = "kind", map[string]string{"a": "VarA", "b": "VarB"}
					}
					if rng.Intn(2) == 0 {
						cn := fmt.Sprintf("Either%d", len(sp.CompSchemas))
						sp.CompSchemas = append(sp.CompSchemas, dialect.Prop{Name: cn, Schema: one})
						one = &dialect.Schema{Ref: cn}
					}
					o.Body = &dialect.Body{Content: "application/json", Schema: one, Required: true}
					extra = c14OneOfDocs
				case 0, 1:
					body = g.object(2, true)
					if rng.Intn(2) == 0 {
						body.Ref = g.name()
					}
					o.Body = &dialect.Body{Content: "application/json", Schema: body.Dialect(&sp.CompSchemas), Required: true}
					if nbody == 1 || rng.Intn(3) == 0 {
						// other media types next to application/json, sorting before and after it: JSON is what is decoded, in
						// place and through a requestBodies component alike
						o.Body.AlsoContent = [][]string{{"application/geo+json"}, {"*/*", "text/csv"}, {"application/cbor", "application/xml"}}[rng.Intn(3)]
					}
					if (body.Ref == "" && len(sp.CompBodies) == 0) || rng.Intn(3) == 0 {
						// a components.requestBodies entry (its schema defined in place unless the body is a schema $ref);
						// the first body that is an object defined in place always becomes one
						if sp.CompBodies == nil {
							sp.CompBodies = map[string]dialect.Body{}
						}
						bn := fmt.Sprintf("RB%d", len(sp.CompBodies))
						sp.CompBodies[bn] = *o.Body
						o.Body = &dialect.Body{Ref: bn}
					}
				case 2:
					body = &JS{Kind: "arr", Inner: g.value(1)}
					if nbody == 2 {
						body.Inner = g.object(1, false)
						for len(body.Inner.Members) < 2 {
							body.Inner = g.object(1, false)
						}
						body.Inner.Members[0].Req = false
					}
					if body.Inner.Kind == "obj" && body.Inner.Ref == "" {
						body.Inner.Ref = g.name()
					}
					o.Body = &dialect.Body{Content: "application/json", Schema: body.Dialect(&sp.CompSchemas), Required: true}
				case 3:
					o.Body = &dialect.Body{Content: "application/octet-stream", Schema: &dialect.Schema{Type: "string", Format: "binary"}}
				}
			}
			switch rng.Intn(4) {
			case 0:
				sec := []dialect.Requirement{}
				o.Security = &sec
			case 1:
				sec := []dialect.Requirement{{"qkey"}, {"bearer"}}
				o.Security = &sec
			case 2:
				sec := []dialect.Requirement{{"key"}}
				o.Security = &sec
			}
			tag := fmt.Sprintf("P%dO%d%s", idx, len(ops), m)
			r1, pl1 := g.c10Response(sp, tag+"A", &junk, "")
			r1.Status, pl1.status = "200", "200"
			o.Responses = []dialect.Response{r1}
			plans := []c10plan{pl1}
			if rng.Intn(2) == 0 {
				r2, pl2 := g.c10Response(sp, tag+"B", &junk, "")
				r2.Status, pl2.status = "default", "default"
				o.Responses = append(o.Responses, r2)
				plans = append(plans, pl2)
			}
			for i := range plans {
				plans[i].gotype = "@Response" + strings.Title(plans[i].status)
				if plans[i].kind == "json" {
					plans[i].gotype += "JSON"
				}
			}
			// the first operations use one component under different statuses (and its alias under yet another); the rest at random
			forced := []struct {
				sh int
				st string
			}{{0, "404"}, {0, "409"}, {2, "410"}, {1, "409"}, {1, "404"}}
			if len(ops) < len(forced) || rng.Intn(2) == 0 {
				sh := shared[rng.Intn(len(shared))]
				pl := sh.pl
				pl.status = []string{"404", "409", "410"}[rng.Intn(3)]
				if len(ops) < len(forced) {
					sh = shared[forced[len(ops)].sh]
					pl = sh.pl
					pl.status = forced[len(ops)].st
				}
				pl.gotype, pl.comp = sh.name+"Response", sh.name
				o.Responses = append(o.Responses, dialect.Response{Status: pl.status, Ref: sh.name})
				plans = append(plans, pl)
			}
			pi.Ops = append(pi.Ops, o)
			ops = append(ops, c14op{pi, o, body, plans, extra})
		}
		scatterPathParams(rng, pi)
		sp.Paths = append(sp.Paths, pi)
	}
	rc := rcase{Pkg: fmt.Sprintf("p%04d", idx), Spec: sp, FlagBase: bf.Flag, Cors: rng.Intn(2) == 0}
	return rc, ops
}

var c14Segs = []string{"x", "1", "-1", "0", "true", "1.5", "2024-01-02T03:04:05Z", "", "%2F", "%zz", "a%20b", "..", ".", "9223372036854775808", strings.Repeat("9", 400), "é", "{id}", "items", "\x00", " "}
var c14Texts = []string{"", "x", "1", "-1", "0", "true", "false", "TRUE", "1.5", "1e400", "NaN", "Inf", "2024-01-02T03:04:05Z", "2024-13-40T99:99:99Z", "9223372036854775808", "-9223372036854775809", "2147483648",
	strings.Repeat("a", 5000), " 1", "1 ", "+1", "0x10", "1_000", "null", "[]", "{}", "\x00", "é", "a,b", "%"}

// a text in the lexical space of the parameter's type
func c14Valid(sc *dialect.Schema, rng *rand.Rand) string {
	for k := 0; k < 4; k++ {
		if t, ok := c14Target[sc]; ok {
			sc = t
		}
		if sc.Type == "array" && sc.Items != nil {
			sc = sc.Items
		}
	}
	switch sc.Type {
	case "integer":
		return []string{"0", "42", "-7", "2147483647"}[rng.Intn(4)]
	case "number":
		return []string{"0", "1.5", "-2.25e3", "1e-7"}[rng.Intn(4)]
	case "boolean":
		return []string{"true", "false", "1", "0"}[rng.Intn(4)]
	case "string":
		if sc.Format == "date-time" {
			return []string{"2024-01-02T03:04:05Z", "1999-12-31T23:59:59.123456789-07:30"}[rng.Intn(2)]
		}
	}
	return []string{"x", "hello world", "a/b", "é"}[rng.Intn(4)]
}

func c14JSONBodies(rng *rand.Rand, g *jgen, body *JS) []string {
	out := []string{"", "null", "{}", "[]", "{", "}", "[", "\"", "{\"a\":", "{\"a\":1,}", "tru", "1", "\"s\"", "1e999", "[null]", "[{}]", "[[]]", "{\"\":null}",
		strings.Repeat("[", 200) + strings.Repeat("]", 200), strings.Repeat("[", 20000), strings.Repeat("{\"a\":", 12000) + "1" + strings.Repeat("}", 12000),
		"{\"a\":\"\\ud800\"}", "{\"a\":\"\xff\"}", "\xef\xbb\xbf{}", "{} {}", "{}x", " \n\t{} ", "{\"a\":1,\"a\":2}", "{\"A\":1}"}
	if body != nil {
		or := &oracle{seen: map[string]bool{}}
		for k := 0; k < 6; k++ {
			var doc interface{}
			if body.Kind == "arr" {
				// valid arrays (weighted): several elements with different optional subsets, so that a decoder that lets one
				// element leak into the next is seen
				var els []interface{}
				for e := 0; e < 2+rng.Intn(3); e++ {
					els = append(els, g.genDoc(body.Inner, or))
				}
				for w := 0; w < 8; w++ {
					out = append(out, marshalDoc(els, rng))
				}
				out = append(out, "[]", "[]")
			}
			if body.Kind == "obj" {
				doc = g.genDoc(body, or)
				d := doc.(map[string]interface{})
				txt := marshalDoc(d, rng)
				// (weighted: valid documents — with their optional properties — and the empty object are what tells a generated
				//  decoder from encoding/json's default one)
				for w := 0; w < 8; w++ {
					out = append(out, marshalDoc(d, rng))
				}
				out = append(out, "{}", "{}", "{}")
				// mutants: every value replaced by a value of another JSON type, keys dropped, nulls
				for key := range d {
					for _, repl := range []interface{}{nil, "str", 1.5, true, []interface{}{}, map[string]interface{}{}, []interface{}{nil}, map[string]interface{}{"x": nil}} {
						cp := map[string]interface{}{}
						for k2, v := range d {
							cp[k2] = v
						}
						cp[key] = repl
						out = append(out, marshalDoc(cp, rng))
					}
					cp := map[string]interface{}{}
					for k2, v := range d {
						if k2 != key {
							cp[k2] = v
						}
					}
					out = append(out, marshalDoc(cp, rng))
				}
				// the fewest keys the schema admits, alone and next to undeclared ones (fewer keys than declared properties,
				// yet some of them undeclared); weighted, because the list is long and one body is drawn per request
				req := map[string]bool{}
				var walk func(x *JS)
				walk = func(x *JS) {
					for _, m := range x.Members {
						if m.Embed {
							walk(m.S)
						} else if m.Req {
							req[m.Name] = true
						}
					}
				}
				walk(body)
				min := map[string]interface{}{}
				for k2, v := range d {
					if req[k2] {
						min[k2] = v
					}
				}
				for _, extra := range [][]string{{}, {"zzUndeclared"}, {"zzUndeclared", "zzOther"}} {
					cp := map[string]interface{}{}
					for k2, v := range min {
						cp[k2] = v
					}
					for n, e := range extra {
						cp[e] = []interface{}{1, "s", true}[(k+n)%3]
					}
					for w := 0; w < 6; w++ {
						out = append(out, marshalDoc(cp, rng))
					}
				}
				// truncations
				for _, cut := range []int{1, len(txt) / 3, len(txt) / 2, len(txt) - 1} {
					if cut > 0 && cut < len(txt) {
						out = append(out, txt[:cut])
					}
				}
			}
		}
	}
	return out
}

// c14Requests: per structured/mutated requests against the operations of one document
func c14Requests(rng *rand.Rand, g *jgen, ops []c14op, base string, per int, cfgExtra string, emit func(kind, cfg, method, rawurl string, headers [][2]string, body string)) {
	cfgs := []string{"authdflt=any", "authdflt=none", "authdflt=nil", "mw=2,authdflt=any", "nf=1,cors=1,authdflt=any", "sf=1,authdflt=any"}
	// systematic part: every operation with every Authorization value of the list (all lengths of a bearer credential among
	// them), otherwise valid; then the random part
	authList := []string{"Bearer tok", "tok", "", "Bearer ", "Basic xx", "bearer tok", "BEARER TOK", "Bearer  two-spaces", "Bearer\ttab", "Bearer tok extra", "Bearertok"}
	for k := 0; k <= len("Bearer tokXYZ"); k++ {
		authList = append(authList, "Bearer tokXYZ"[:k])
	}
	authList = append(authList, "abcdef", "abcdefg", strings.Repeat("B", 4000))
	sys := len(ops) * len(authList)
	for n := -sys; n < per; n++ {
		op := ops[rng.Intn(len(ops))]
		cfg := cfgs[rng.Intn(len(cfgs))] + cfgExtra
		sysAuth := ""
		if n < 0 {
			op = ops[(n+sys)/len(authList)]
			sysAuth = authList[(n+sys)%len(authList)]
			cfg = "authdflt=any" + cfgExtra
		}
		// every third request is valid up to its body: every parameter typed and present once, every credential attached, the handler
		// reached, so that what happens to the BODY is observed (the others: a near-valid request, then one mutation class)
		allValid := n%3 == 0 || n < 0
		if allValid {
			cfg = []string{"authdflt=any", "mw=2,authdflt=any"}[rng.Intn(2)] + cfgExtra
		}
		var segs []string
		for _, seg := range strings.Split(strings.TrimPrefix(op.pi.Raw, "/"), "/") {
			if strings.HasPrefix(seg, "{") {
				v := c14Segs[rng.Intn(len(c14Segs))]
				if allValid || rng.Intn(3) != 0 {
					for _, prm := range op.pi.Params {
						if "{"+prm.Name+"}" == seg {
							v = url.PathEscape(c14Valid(prm.Schema, rng))
						}
					}
				}
				segs = append(segs, v)
			} else {
				segs = append(segs, seg)
			}
		}
		path := base + "/" + strings.Join(segs, "/")
		q := url.Values{}
		var hdrs [][2]string
		for _, prm := range op.o.Params {
			if !allValid && rng.Intn(4) == 0 && !prm.Required {
				continue
			}
			cnt := 1
			if !allValid && rng.Intn(4) == 0 {
				cnt = rng.Intn(4)
			}
			for k := 0; k < cnt; k++ {
				v := c14Texts[rng.Intn(len(c14Texts))]
				if allValid || rng.Intn(3) != 0 {
					v = c14Valid(prm.Schema, rng)
				}
				if prm.In == "query" {
					q.Add(prm.Name, v)
				} else if !strings.ContainsAny(v, "\x00\n\r") {
					hdrs = append(hdrs, [2]string{prm.Name, v})
				}
			}
		}
		credential := (n / 3) % 4 // (in turn, so that every class is certain to occur)
		if allValid {
			credential = 9
			if n < 0 {
				hdrs = append(hdrs, [2]string{"Authorization", sysAuth})
			} else {
				hdrs = append(hdrs, [2]string{"Authorization", "Bearer tok"}, [2]string{"X-Api-Key", "k"})
				q.Add("api_key", "k")
			}
		}
		switch credential {
		case 0:
			// every prefix length of a bearer credential, other schemes, wrong case, odd bytes
			auth := []string{"Bearer tok", "tok", "", "Bearer ", "Basic xx", "bearer tok", "BEARER TOK", "Bearer  two-spaces", "Bearer\ttab", "Bearer tok extra", "Bearertok"}
			full := "Bearer tokXYZ"
			for n := 0; n <= len(full); n++ {
				auth = append(auth, full[:n])
			}
			auth = append(auth, "abcdef", "abcdefg", strings.Repeat("B", 4000))
			hdrs = append(hdrs, [2]string{"Authorization", auth[(n/12)%len(auth)]})
			if n%2 == 0 {
				cfg = "authdflt=any" + cfgExtra // (the credential reaches the authenticator)
			}
		case 1:
			hdrs = append(hdrs, [2]string{"X-Api-Key", "k"})
		case 2:
			q.Add("api_key", "k")
		}
		rawq := q.Encode()
		body := ""
		if op.o.Body != nil {
			bodies := c14JSONBodies(rng, g, op.body)
			if len(op.extra) > 0 && rng.Intn(3) != 0 {
				bodies = op.extra
			}
			body = bodies[rng.Intn(len(bodies))]
		}
		method := op.o.Method
		kind := "near-valid"
		mutation := rng.Intn(12)
		if allValid {
			kind, mutation = "valid-up-to-body", 11
			if n < 0 {
				kind = "authorization-values"
			}
		}
		switch mutation {
		case 0:
			path = strings.Replace(path, "/", "//", 1+rng.Intn(2))
			kind = "doubled-slash"
		case 1:
			if len(path) > 1 {
				path = path[:1+rng.Intn(len(path)-1)]
			}
			kind = "truncated-path"
		case 2:
			path = path + []string{"/", "/extra", "//", "/a/b/c/d/e/f"}[rng.Intn(4)]
			kind = "extended-path"
		case 3:
			if base != "" {
				path = []string{base[:len(base)-1], base + "x", strings.ToUpper(base), base + base}[rng.Intn(4)] + strings.TrimPrefix(path, base)
			} else {
				path = "/nobase" + path
			}
			kind = "base-near-miss"
		case 4:
			method = []string{"HEAD", "OPTIONS", "TRACE", "CONNECT", "get", "FOO", "", "PATCH"}[rng.Intn(8)]
			kind = "other-method"
		case 5:
			rawq = []string{"%zz", "a=%zz", "&&&", "=", "a;b=1", "a=1&a=2&a=3", strings.Repeat("k=v&", 3000), "a[]=1", "%00=1"}[rng.Intn(9)]
			kind = "malformed-query"
		case 6:
			path = "/" + strings.Repeat("a/", 3000)
			kind = "huge-path"
		case 7:
			path = []string{"", "*", "noslash", "/..", "/%2e%2e/", "/\x00", "http://h/x"}[rng.Intn(7)]
			kind = "odd-request-target"
		case 8:
			hdrs = append(hdrs, [2]string{"Content-Type", []string{"text/plain", "application/json; charset=utf-8", "", "multipart/form-data"}[rng.Intn(4)]})
			kind = "content-type"
		case 9:
			// the spec file's own path (and near misses), with the spec-file handler installed or not, behind middlewares or not
			path = base + []string{"/openapi.yaml", "/openapi.yaml", "/openapi.yaml/", "/openapi.yam", "/openapi.yaml/x"}[rng.Intn(5)]
			cfg = []string{"sf=1,authdflt=any", "sf=1,mw=2,authdflt=any", "sf=1,nf=1,cors=1,authdflt=any", "authdflt=any"}[rng.Intn(4)] + cfgExtra
			method = []string{"GET", "GET", "POST", "OPTIONS", method}[rng.Intn(5)]
			kind = "spec-file"
		}
		rawurl := path
		if rawq != "" {
			rawurl += "?" + rawq
		}
		emit(kind, cfg, method, rawurl, hdrs, body)
	}
}

func c14Cases(c runCfg) ([]*scratch.Pkg, []string, map[string]interface{}) {
	rng := rand.New(rand.NewSource(c.Seed))
	npk, per := 6, 250
	if c.Thorough {
		npk, per = 60, 800
	}
	var pkgs []*scratch.Pkg
	var lines []string
	g := &jgen{rng: rng, noNullAny: true}
	kinds := map[string]int{}
	for pi := 0; pi < npk; pi++ {
		rc, ops := c14Package(rng, pi)
		p := rc.ScratchPkg()
		pkgs = append(pkgs, p)
		lines = append(lines, DLine(p))
		base, _ := serverPath(rc.Spec)
		if rc.FlagBase != "" {
			base = rc.FlagBase
		}
		base = normBase(base)
		c14Requests(rng, g, ops, base, per, "", func(kind, cfg, method, rawurl string, headers [][2]string, body string) {
			var hb strings.Builder
			for _, h := range headers {
				hb.WriteString(h[0] + ":" + h[1] + "\n")
			}
			lines = append(lines, fmt.Sprintf("F %s %s %s %s %s %s #kind=%s", rc.Pkg, cfg, method, dialect.Hx(rawurl), dialect.Hx(hb.String()), dialect.Hx(body), kind))
			kinds[kind]++
		})
	}
	return pkgs, lines, map[string]interface{}{"packages_planned": npk, "requests": len(lines) - npk, "request_kinds": kinds}
}

func runC14(c runCfg) error {
	var pkgs []*scratch.Pkg
	var lines []string
	meta := map[string]interface{}{}
	if c.Cases != "" {
		var err error
		lines, err = readLines(c.Cases)
		if err != nil {
			return err
		}
		pkgs = pkgsFromDLines(lines)
	} else {
		c14Wide = true
		pkgs, lines, meta = c14Cases(c)
	}
	root, err := mkRoot(c)
	if err != nil {
		return err
	}
	defer rmRoot(root)
	m, err := scratch.New(root, pkgs)
	if err != nil {
		return err
	}
	m.AddDrivers()
	if err := m.Build(false); err != nil {
		return err
	}
	defer m.Close()
	byName := map[string]*scratch.Pkg{}
	for _, p := range pkgs {
		byName[p.Name] = p
	}
	impl := make([]string, len(lines))
	var send []string
	var idx []int
	for i, l := range lines {
		f := strings.Split(l, " ")
		if f[0] != "F" || len(f) < 7 {
			impl[i] = "SKIP"
			continue
		}
		p := byName[f[1]]
		if p == nil || !p.OK() {
			impl[i] = "SKIP pkg-unavailable"
			continue
		}
		send = append(send, fmt.Sprintf("%s REQ %s %s %s %s %s", f[1], f[2], f[3], f[4], f[5], f[6]))
		idx = append(idx, i)
	}
	res, err := m.Run(send)
	if err != nil {
		return err
	}
	for k, i := range idx {
		impl[i] = res[k]
	}
	return writeFam(c, &famResult{Cases: lines, Impl: impl, Pkgs: pkgs}, meta)
}

func hasProp(ps []dialect.Prop, name string) bool {
	for _, p := range ps {
		if p.Name == name {
			return true
		}
	}
	return false
}
