package main

// C01: the feature matrix. One small document per cell of
// (schema kind x position x required x nullable x ref/inline) plus name-shape
// and free-text-shape cells and seeded compositions; each generated with the
// flag combinations, then judged at the property's own observation points:
// every written file parses, is gofmt-stable, imports the standard library only
// and the files type-check as one package (go build).

import (
	"bytes"
	"fmt"
	"go/format"
	"go/parser"
	"go/scanner"
	"go/token"
	"math/rand"
	"os"
	"path/filepath"
	"sort"
	"strconv"
	"strings"

	"github.com/vkd/goag/generator"

	"verifharness/internal/dialect"
	"verifharness/internal/gen"
	"verifharness/internal/scratch"
)

func init() { commands["C01"] = runC01 }

type c01cell struct {
	name string
	sp   *dialect.Spec
	tags []string
	opts []c01opt // when set: generate with exactly these flag sets
}

type kindDef struct {
	name string
	mk   func() *dialect.Schema
	comp []dialect.Prop // component schemas the kind needs
}

func objAB() *dialect.Schema {
	return &dialect.Schema{Type: "object", Props: []dialect.Prop{{Name: "a", Schema: &dialect.Schema{Type: "string"}}, {Name: "b", Schema: &dialect.Schema{Type: "integer"}}}, Required: []string{"a"}}
}

var c01Prims = []kindDef{
	{name: "string", mk: func() *dialect.Schema { return &dialect.Schema{Type: "string"} }},
	{name: "password", mk: func() *dialect.Schema { return &dialect.Schema{Type: "string", Format: "password"} }},
	{name: "datetime", mk: func() *dialect.Schema { return &dialect.Schema{Type: "string", Format: "date-time"} }},
	{name: "integer", mk: func() *dialect.Schema { return &dialect.Schema{Type: "integer"} }},
	{name: "int32", mk: func() *dialect.Schema { return &dialect.Schema{Type: "integer", Format: "int32"} }},
	{name: "int64", mk: func() *dialect.Schema { return &dialect.Schema{Type: "integer", Format: "int64"} }},
	{name: "number", mk: func() *dialect.Schema { return &dialect.Schema{Type: "number"} }},
	{name: "float", mk: func() *dialect.Schema { return &dialect.Schema{Type: "number", Format: "float"} }},
	{name: "double", mk: func() *dialect.Schema { return &dialect.Schema{Type: "number", Format: "double"} }},
	{name: "boolean", mk: func() *dialect.Schema { return &dialect.Schema{Type: "boolean"} }},
}

// structured kinds (for JSON positions)
func c01Structured() []kindDef {
	pet := dialect.Prop{Name: "Pet", Schema: objAB()}
	strComp := dialect.Prop{Name: "Name", Schema: &dialect.Schema{Type: "string"}}
	intComp := dialect.Prop{Name: "Count", Schema: &dialect.Schema{Type: "integer", Format: "int64"}}
	timeComp := dialect.Prop{Name: "Stamp", Schema: &dialect.Schema{Type: "string", Format: "date-time"}}
	arrComp := dialect.Prop{Name: "Names", Schema: &dialect.Schema{Type: "array", Items: &dialect.Schema{Type: "string"}}}
	petsComp := dialect.Prop{Name: "Pets", Schema: &dialect.Schema{Type: "array", Items: &dialect.Schema{Ref: "Pet"}}}
	mapComp := dialect.Prop{Name: "Dict", Schema: &dialect.Schema{Type: "object", AddProps: &dialect.Schema{Type: "string"}}}
	nullStr := dialect.Prop{Name: "MaybeName", Schema: &dialect.Schema{Type: "string", Nullable: true}}
	ks := []kindDef{
		{name: "any", mk: func() *dialect.Schema { return &dialect.Schema{} }},
		{name: "obj-inline", mk: objAB},
		{name: "obj-empty", mk: func() *dialect.Schema { return &dialect.Schema{Type: "object"} }},
		{name: "obj-ref", mk: func() *dialect.Schema { return &dialect.Schema{Ref: "Pet"} }, comp: []dialect.Prop{pet}},
		{name: "obj-nested", mk: func() *dialect.Schema {
			return &dialect.Schema{Type: "object", Props: []dialect.Prop{{Name: "inner", Schema: objAB()}, {Name: "pet", Schema: &dialect.Schema{Ref: "Pet"}}}, Required: []string{"inner"}}
		}, comp: []dialect.Prop{pet}},
		{name: "arr-obj-ref", mk: func() *dialect.Schema { return &dialect.Schema{Type: "array", Items: &dialect.Schema{Ref: "Pet"}} }, comp: []dialect.Prop{pet}},
		{name: "arr-obj-inline", mk: func() *dialect.Schema { return &dialect.Schema{Type: "array", Items: objAB()} }},
		{name: "arr-arr-string", mk: func() *dialect.Schema {
			return &dialect.Schema{Type: "array", Items: &dialect.Schema{Type: "array", Items: &dialect.Schema{Type: "string"}}}
		}},
		{name: "arr-any", mk: func() *dialect.Schema { return &dialect.Schema{Type: "array", Items: &dialect.Schema{}} }},
		{name: "map-string", mk: func() *dialect.Schema {
			return &dialect.Schema{Type: "object", AddProps: &dialect.Schema{Type: "string"}}
		}},
		{name: "map-int", mk: func() *dialect.Schema {
			return &dialect.Schema{Type: "object", AddProps: &dialect.Schema{Type: "integer", Format: "int64"}}
		}},
		{name: "map-any", mk: func() *dialect.Schema { return &dialect.Schema{Type: "object", AddAny: true} }},
		{name: "map-obj-ref", mk: func() *dialect.Schema { return &dialect.Schema{Type: "object", AddProps: &dialect.Schema{Ref: "Pet"}} }, comp: []dialect.Prop{pet}},
		{name: "obj-props-and-map", mk: func() *dialect.Schema {
			o := objAB()
			o.AddProps = &dialect.Schema{Type: "string"}
			return o
		}},
		{name: "ref-string", mk: func() *dialect.Schema { return &dialect.Schema{Ref: "Name"} }, comp: []dialect.Prop{strComp}},
		{name: "ref-int64", mk: func() *dialect.Schema { return &dialect.Schema{Ref: "Count"} }, comp: []dialect.Prop{intComp}},
		{name: "ref-datetime", mk: func() *dialect.Schema { return &dialect.Schema{Ref: "Stamp"} }, comp: []dialect.Prop{timeComp}},
		{name: "ref-arr-string", mk: func() *dialect.Schema { return &dialect.Schema{Ref: "Names"} }, comp: []dialect.Prop{arrComp}},
		{name: "ref-arr-obj", mk: func() *dialect.Schema { return &dialect.Schema{Ref: "Pets"} }, comp: []dialect.Prop{pet, petsComp}},
		{name: "ref-map", mk: func() *dialect.Schema { return &dialect.Schema{Ref: "Dict"} }, comp: []dialect.Prop{mapComp}},
		{name: "ref-nullable-string", mk: func() *dialect.Schema { return &dialect.Schema{Ref: "MaybeName"} }, comp: []dialect.Prop{nullStr}},
		{name: "allof-ref-inline", mk: func() *dialect.Schema {
			return &dialect.Schema{AllOf: []*dialect.Schema{{Ref: "Pet"}, {Type: "object", Props: []dialect.Prop{{Name: "extra", Schema: &dialect.Schema{Type: "boolean"}}}}}}
		}, comp: []dialect.Prop{pet}},
		{name: "allof-inline-ref", mk: func() *dialect.Schema {
			return &dialect.Schema{AllOf: []*dialect.Schema{{Type: "object", Props: []dialect.Prop{{Name: "extra", Schema: &dialect.Schema{Type: "boolean"}}}}, {Ref: "Pet"}}}
		}, comp: []dialect.Prop{pet}},
		// a nullable object component as a member of allOf / a variant of oneOf (refused by the generator)
		{name: "allof-nullable-member", mk: func() *dialect.Schema {
			return &dialect.Schema{AllOf: []*dialect.Schema{{Ref: "MaybePet"}, {Type: "object", Props: []dialect.Prop{{Name: "extra", Schema: &dialect.Schema{Type: "boolean"}}}}}}
		}, comp: []dialect.Prop{{Name: "MaybePet", Schema: func() *dialect.Schema { s := objAB(); s.Nullable = true; return s }()}}},
		{name: "oneof-nullable-variant", mk: func() *dialect.Schema {
			return &dialect.Schema{OneOf: []*dialect.Schema{{Ref: "MaybePet"}, {Ref: "Pet"}}}
		}, comp: []dialect.Prop{pet, {Name: "MaybePet", Schema: func() *dialect.Schema { s := objAB(); s.Nullable = true; return s }()}}},
		{name: "allof-ref-ref", mk: func() *dialect.Schema {
			return &dialect.Schema{AllOf: []*dialect.Schema{{Ref: "Pet"}, {Ref: "Dog"}}}
		}, comp: []dialect.Prop{pet, {Name: "Dog", Schema: &dialect.Schema{Type: "object", Props: []dialect.Prop{{Name: "bark", Schema: &dialect.Schema{Type: "boolean"}}}}}}},
	}
	// oneOf: without discriminator, with one (no mapping / full refs / bare names / a key restating a schema's name /
	// a key equal to ANOTHER schema's name / a target that is not a variant), defined in place, with primitive variants
	varA := dialect.Prop{Name: "VarA", Schema: &dialect.Schema{Type: "object", Props: []dialect.Prop{{Name: "kind", Schema: &dialect.Schema{Type: "string"}}, {Name: "a", Schema: &dialect.Schema{Type: "string"}}}, Required: []string{"kind", "a"}}}
	varB := dialect.Prop{Name: "VarB", Schema: &dialect.Schema{Type: "object", Props: []dialect.Prop{{Name: "kind", Schema: &dialect.Schema{Type: "string"}}, {Name: "b", Schema: &dialect.Schema{Type: "integer"}}}, Required: []string{"kind", "b"}}}
	oneOfAB := func(disc string, mapping map[string]string) *dialect.Schema {
		return &dialect.Schema{OneOf: []*dialect.Schema{{Ref: "VarA"}, {Ref: "VarB"}}, DiscProp: disc, DiscMap: mapping}
	}
	for _, oc := range []struct {
		name    string
		disc    string
		mapping map[string]string
	}{
		{"nodisc", "", nil},
		{"disc-nomap", "kind", nil},
		{"disc-map", "kind", map[string]string{"a": "VarA", "b": "VarB", "b2": "VarB"}},
		{"disc-map-bare", "kind", map[string]string{"a": "=VarA", "b": "=VarB"}},
		{"disc-map-restates", "kind", map[string]string{"VarA": "VarA"}},
		// a schema's own name restated next to keys that sort before and after it
		{"disc-map-restates-among-others", "kind", map[string]string{"VarA": "VarA", "Alpha": "VarA", "zed": "VarA", "Beta": "VarB", "VarB": "VarB"}},
		{"disc-map-other-name", "kind", map[string]string{"VarB": "VarA"}},
		{"disc-map-nonvariant", "kind", map[string]string{"a": "Pet", "b": "VarB", "c": "VarA"}},
		{"disc-map-nonvariant-bare", "kind", map[string]string{"a": "=Pet", "b": "VarB", "c": "VarA"}},
	} {
		oc := oc
		one := dialect.Prop{Name: "One", Schema: oneOfAB(oc.disc, oc.mapping)}
		ks = append(ks,
			kindDef{name: "oneof-ref-" + oc.name, mk: func() *dialect.Schema { return &dialect.Schema{Ref: "One"} }, comp: []dialect.Prop{pet, varA, varB, one}},
			kindDef{name: "oneof-inline-" + oc.name, mk: func() *dialect.Schema { return oneOfAB(oc.disc, oc.mapping) }, comp: []dialect.Prop{pet, varA, varB}})
	}
	// a date-time variant, in place and as a component (refused by the generator)
	ks = append(ks, kindDef{name: "oneof-datetime-inline", mk: func() *dialect.Schema {
		return &dialect.Schema{OneOf: []*dialect.Schema{{Type: "string", Format: "date-time"}, {Type: "integer"}}}
	}}, kindDef{name: "oneof-datetime-ref", mk: func() *dialect.Schema {
		return &dialect.Schema{OneOf: []*dialect.Schema{{Ref: "Stamp"}, {Ref: "Pet"}}}
	}, comp: []dialect.Prop{pet, timeComp}})
	ks = append(ks, kindDef{name: "oneof-prims", mk: func() *dialect.Schema {
		return &dialect.Schema{OneOf: []*dialect.Schema{{Type: "string"}, {Type: "integer"}, objAB()}}
	}})
	// every component kind again, reached through components that are only a $ref (one step and two)
	for _, k := range ks {
		k := k
		s := k.mk()
		if s.Ref == "" {
			continue
		}
		comp := append(append([]dialect.Prop{}, k.comp...),
			dialect.Prop{Name: s.Ref + "Alias", Schema: &dialect.Schema{Ref: s.Ref}},
			dialect.Prop{Name: s.Ref + "Alias2", Schema: &dialect.Schema{Ref: s.Ref + "Alias"}})
		ks = append(ks,
			kindDef{name: "alias-" + k.name, mk: func() *dialect.Schema { return &dialect.Schema{Ref: s.Ref + "Alias"} }, comp: comp},
			kindDef{name: "alias2-" + k.name, mk: func() *dialect.Schema { return &dialect.Schema{Ref: s.Ref + "Alias2"} }, comp: comp})
	}
	ks = append(ks, kindDef{name: "allof-alias-inline", mk: func() *dialect.Schema {
		return &dialect.Schema{AllOf: []*dialect.Schema{{Ref: "PetAlias"}, {Type: "object", Props: []dialect.Prop{{Name: "extra", Schema: &dialect.Schema{Type: "boolean"}}}}}}
	}, comp: []dialect.Prop{pet, {Name: "PetAlias", Schema: &dialect.Schema{Ref: "Pet"}}}})
	for _, p := range c01Prims {
		p := p
		ks = append(ks,
			kindDef{name: p.name, mk: p.mk},
			kindDef{name: "null-" + p.name, mk: func() *dialect.Schema { s := p.mk(); s.Nullable = true; return s }},
			kindDef{name: "arr-" + p.name, mk: func() *dialect.Schema { return &dialect.Schema{Type: "array", Items: p.mk()} }},
			kindDef{name: "arr-null-" + p.name, mk: func() *dialect.Schema {
				it := p.mk()
				it.Nullable = true
				return &dialect.Schema{Type: "array", Items: it}
			}},
		)
	}
	ks = append(ks,
		kindDef{name: "null-obj-ref", mk: func() *dialect.Schema {
			return &dialect.Schema{Ref: "NPet"}
		}, comp: []dialect.Prop{{Name: "NPet", Schema: func() *dialect.Schema { o := objAB(); o.Nullable = true; return o }()}}},
		kindDef{name: "null-obj-inline", mk: func() *dialect.Schema { o := objAB(); o.Nullable = true; return o }},
		kindDef{name: "null-arr-string", mk: func() *dialect.Schema {
			return &dialect.Schema{Type: "array", Nullable: true, Items: &dialect.Schema{Type: "string"}}
		}},
	)
	return ks
}

func c01Base() *dialect.Spec {
	return &dialect.Spec{CompParams: map[string]dialect.Param{}, CompHeaders: map[string]dialect.Header{}, CompResponses: map[string]dialect.Response{}, CompBodies: map[string]dialect.Body{}}
}

func addComps(sp *dialect.Spec, ps []dialect.Prop) {
	for _, p := range ps {
		dup := false
		for _, q := range sp.CompSchemas {
			if q.Name == p.Name {
				dup = true
			}
		}
		if !dup {
			sp.CompSchemas = append(sp.CompSchemas, p)
		}
	}
}

func okResp() []dialect.Response { return []dialect.Response{{Status: "200"}} }

// ---- the matrix ---------------------------------------------------------------

func c01Matrix() []c01cell {
	var cells []c01cell
	add := func(name string, sp *dialect.Spec, tags ...string) {
		cells = append(cells, c01cell{name: name, sp: sp, tags: tags})
	}
	// A. parameters: location x primitive x {scalar, array} x required x nullable x {inline, schema $ref, parameter $ref} x level
	for _, in := range []string{"query", "header", "path"} {
		for _, pk := range c01Prims {
			for _, shape := range []string{"scalar", "array", "array-null-items", "array-of-arrays"} {
				if shape != "scalar" && in == "path" {
					continue
				}
				for _, req := range []bool{true, false} {
					if in == "path" && !req {
						continue
					}
					for _, nullable := range []bool{false, true} {
						if nullable && in == "path" {
							continue
						}
						for _, mode := range []string{"inline", "schemaref", "paramref"} {
							for _, level := range []string{"op", "pathitem"} {
								if level == "pathitem" && (mode != "inline" || nullable) {
									continue
								}
								sp := c01Base()
								sc := pk.mk()
								if shape == "array" {
									sc = &dialect.Schema{Type: "array", Items: sc}
								}
								if shape == "array-null-items" {
									sc.Nullable = true
									sc = &dialect.Schema{Type: "array", Items: sc}
								}
								if shape == "array-of-arrays" {
									// (outside the dialect of section 3; the generator translates it when no client is asked for: each
									// value becomes a one-element inner array)
									sc = &dialect.Schema{Type: "array", Items: &dialect.Schema{Type: "array", Items: sc}}
								}
								sc.Nullable = nullable
								if mode == "schemaref" {
									sp.CompSchemas = append(sp.CompSchemas, dialect.Prop{Name: "ParamSchema", Schema: sc})
									sc = &dialect.Schema{Ref: "ParamSchema"}
								}
								raw := "/x"
								if in == "path" {
									raw = "/x/{v}"
								}
								pr := dialect.Param{Name: "v", In: in, Required: req, Schema: sc}
								if mode == "paramref" {
									sp.CompParams["VParam"] = pr
									pr = dialect.Param{Ref: "VParam", Name: "v", In: in, Required: req, Schema: sc}
								}
								o := &dialect.Op{Method: "GET", Responses: okResp()}
								pi := &dialect.PathItem{Raw: raw, Ops: []*dialect.Op{o}}
								if level == "op" {
									o.Params = []dialect.Param{pr}
								} else {
									pi.Params = []dialect.Param{pr}
								}
								sp.Paths = []*dialect.PathItem{pi}
								add(fmt.Sprintf("param/%s/%s/%s/req=%v/null=%v/%s/%s", in, pk.name, shape, req, nullable, mode, level), sp,
									"param", in, pk.name, shape, mode)
							}
						}
					}
				}
			}
		}
	}
	// B. JSON positions: schema kind x position x required
	for _, k := range c01Structured() {
		for _, pos := range []string{"component", "property", "reqbody", "respbody", "reqbody-comp", "resp-comp", "resp-comp-alias2", "resp-comp-default", "items", "addl"} {
			for _, req := range []bool{true, false} {
				if !req && pos != "property" {
					continue
				}
				sp := c01Base()
				addComps(sp, k.comp)
				o := &dialect.Op{Method: "POST", Responses: okResp()}
				switch pos {
				case "component":
					sp.CompSchemas = append(sp.CompSchemas, dialect.Prop{Name: "Thing", Schema: k.mk()})
				case "property":
					holder := &dialect.Schema{Type: "object", Props: []dialect.Prop{{Name: "field", Schema: k.mk()}}}
					if req {
						holder.Required = []string{"field"}
					}
					sp.CompSchemas = append(sp.CompSchemas, dialect.Prop{Name: "Holder", Schema: holder})
				case "items":
					sp.CompSchemas = append(sp.CompSchemas, dialect.Prop{Name: "List", Schema: &dialect.Schema{Type: "array", Items: k.mk()}})
				case "addl":
					sp.CompSchemas = append(sp.CompSchemas, dialect.Prop{Name: "Dict2", Schema: &dialect.Schema{Type: "object", AddProps: k.mk()}})
				case "reqbody":
					o.Body = &dialect.Body{Content: "application/json", Schema: k.mk(), Required: true}
				case "reqbody-comp":
					sp.CompBodies["Payload"] = dialect.Body{Content: "application/json", Schema: k.mk(), Required: true}
					o.Body = &dialect.Body{Ref: "Payload"}
				case "respbody":
					o.Responses = []dialect.Response{{Status: "200", Content: "application/json", Schema: k.mk()}, {Status: "default", Content: "application/json", Schema: k.mk()}}
				case "resp-comp":
					sp.CompResponses["Result"] = dialect.Response{Content: "application/json", Schema: k.mk()}
					o.Responses = []dialect.Response{{Status: "200", Ref: "Result"}}
				case "resp-comp-default":
					// the default response given by reference (next to a status-coded one defined in place)
					sp.CompResponses["Result"] = dialect.Response{Content: "application/json", Schema: k.mk()}
					o.Responses = []dialect.Response{{Status: "200"}, {Status: "default", Ref: "Result"}}
				case "resp-comp-alias2":
					// through two aliases
					sp.CompResponses["Result"] = dialect.Response{Content: "application/json", Schema: k.mk()}
					sp.CompResponses["Same"] = dialect.Response{Ref: "Result"}
					sp.CompResponses["Outer"] = dialect.Response{Ref: "Same"}
					o.Responses = []dialect.Response{{Status: "200", Ref: "Outer"}}
				}
				sp.Paths = []*dialect.PathItem{{Raw: "/x", Ops: []*dialect.Op{o}}}
				add(fmt.Sprintf("json/%s/%s/req=%v", k.name, pos, req), sp, "json", k.name, pos)
			}
		}
	}
	// C. response headers and raw bodies
	for _, pk := range c01Prims {
		for _, shape := range []string{"scalar", "array"} {
			for _, req := range []bool{true, false} {
				for _, mode := range []string{"inline", "headerref", "schemaref", "resp-comp"} {
					sp := c01Base()
					sc := pk.mk()
					if shape == "array" {
						sc = &dialect.Schema{Type: "array", Items: sc}
					}
					if mode == "schemaref" {
						sp.CompSchemas = append(sp.CompSchemas, dialect.Prop{Name: "HSchema", Schema: sc})
						sc = &dialect.Schema{Ref: "HSchema"}
					}
					h := dialect.Header{Name: "X-Val", Required: req, Schema: sc}
					if mode == "headerref" {
						sp.CompHeaders["XVal"] = dialect.Header{Required: req, Schema: sc}
						h = dialect.Header{Name: "X-Val", Ref: "XVal"}
					}
					r := dialect.Response{Status: "200", Headers: []dialect.Header{h}}
					if mode == "resp-comp" {
						sp.CompResponses["WithHeader"] = dialect.Response{Headers: []dialect.Header{h}}
						r = dialect.Response{Status: "200", Ref: "WithHeader"}
					}
					sp.Paths = []*dialect.PathItem{{Raw: "/x", Ops: []*dialect.Op{{Method: "GET", Responses: []dialect.Response{r}}}}}
					add(fmt.Sprintf("resphdr/%s/%s/req=%v/%s", pk.name, shape, req, mode), sp, "resphdr", pk.name, shape, mode)
				}
			}
		}
	}
	for _, ct := range []string{"application/octet-stream", "text/plain", "application/xml", "image/png", "multipart/form-data", "application/x-www-form-urlencoded"} {
		{
			// a request body component with this content only, used through an alias (and an alias of the alias)
			sp := c01Base()
			bin := &dialect.Schema{Type: "string", Format: "binary"}
			sp.CompBodies = map[string]dialect.Body{"RawBody": {Content: ct, Schema: bin}, "AliasBody": {Ref: "RawBody"}, "AliasOfAlias": {Ref: "AliasBody"}}
			sp.Paths = []*dialect.PathItem{{Raw: "/x", Ops: []*dialect.Op{{Method: "POST", Body: &dialect.Body{Ref: "AliasBody"}, Responses: okResp()}}},
				{Raw: "/y", Ops: []*dialect.Op{{Method: "PUT", Body: &dialect.Body{Ref: "AliasOfAlias"}, Responses: okResp()}}}}
			add(fmt.Sprintf("raw/%s/reqbody-alias-raw", ct), sp, "raw", ct, "reqbody-alias")
		}
		for _, pos := range []string{"req", "resp", "both", "resp-default"} {
			sp := c01Base()
			o := &dialect.Op{Method: "POST", Responses: okResp()}
			bin := &dialect.Schema{Type: "string", Format: "binary"}
			if pos == "req" || pos == "both" {
				o.Body = &dialect.Body{Content: ct, Schema: bin}
			}
			if pos == "resp" || pos == "both" {
				o.Responses = []dialect.Response{{Status: "200", Content: ct, Schema: bin}}
			}
			if pos == "resp-default" {
				o.Responses = []dialect.Response{{Status: "default", Content: ct, Schema: bin}}
			}
			sp.Paths = []*dialect.PathItem{{Raw: "/x", Ops: []*dialect.Op{o}}}
			add(fmt.Sprintf("raw/%s/%s", ct, pos), sp, "raw", ct, pos)
		}
	}
	// D. name shapes, at every position that becomes a Go identifier or a string literal
	names := []string{"a", "user_id", "userId", "UserID", "X-Request-Uuid", "api.url", "api-url", "id", "ids", "Id", "kid", "x", "type", "func", "range", "error", "string",
		"Client", "API", "Maybe", "Nullable", "Just", "ErrParseParam", "LogError", "a1", "v2", "snake_case_name", "kebab-case-name", "dot.ted.name", "UPPER", "mixedCASEName", "with space",
		"Uuid", "valid", "Userid", "Kids", "2fa", "_lead", "trail_", "a__b", "é", "名前", "a$b", "a/b", "quote\"d", "back\\slash", "q", "r", "w", "params", "response", "request", "err", "ok", "zero", "vOpt", "hs", "query", "header", "body", "ctx", "h", "p", "s", "c", "b"}
	for _, n := range names {
		for _, pos := range []string{"query", "header", "pathvar", "property", "component", "component-primitive", "alias-of-primitive", "operationId", "resp-header", "path-literal", "component-response", "component-param", "component-body", "component-header", "security-scheme", "addl-key"} {
			sp := c01Base()
			o := &dialect.Op{Method: "GET", Responses: okResp()}
			raw := "/x"
			str := &dialect.Schema{Type: "string"}
			switch pos {
			case "query":
				o.Params = []dialect.Param{{Name: n, In: "query", Schema: str}}
			case "header":
				o.Params = []dialect.Param{{Name: n, In: "header", Schema: str}}
			case "pathvar":
				if strings.ContainsAny(n, "/{}") {
					continue
				}
				raw = "/x/{" + n + "}"
				o.Params = []dialect.Param{{Name: n, In: "path", Required: true, Schema: str}}
			case "property":
				sp.CompSchemas = []dialect.Prop{{Name: "Holder", Schema: &dialect.Schema{Type: "object", Props: []dialect.Prop{{Name: n, Schema: str}, {Name: "other", Schema: objAB()}}, Required: []string{n}}}}
				o.Responses = []dialect.Response{{Status: "200", Content: "application/json", Schema: &dialect.Schema{Ref: "Holder"}}}
			case "component":
				if strings.ContainsAny(n, " /\"\\$") || n == "é" || n == "名前" {
					continue // (component keys must match ^[a-zA-Z0-9._-]+$: the loader rejects the document)
				}
				sp.CompSchemas = []dialect.Prop{{Name: n, Schema: objAB()}}
				o.Responses = []dialect.Response{{Status: "200", Content: "application/json", Schema: &dialect.Schema{Ref: n}}}
			case "component-primitive", "alias-of-primitive":
				// a primitive component (and an alias of it) used as parameter schemas: the accessor method of the named type
				// is declared in components.go and called in handler.go and client.go
				if strings.ContainsAny(n, " /\"\\$") || n == "é" || n == "名前" {
					continue
				}
				sp.CompSchemas = []dialect.Prop{{Name: n, Schema: &dialect.Schema{Type: "string"}}}
				use := n
				if pos == "alias-of-primitive" {
					if n == "ZzAlias" {
						continue
					}
					sp.CompSchemas = append(sp.CompSchemas, dialect.Prop{Name: "ZzAlias", Schema: &dialect.Schema{Ref: n}})
					use = "ZzAlias"
				}
				raw = "/x/{v}"
				o.Params = []dialect.Param{{Name: "v", In: "path", Required: true, Schema: &dialect.Schema{Ref: use}},
					{Name: "q", In: "query", Schema: &dialect.Schema{Type: "array", Items: &dialect.Schema{Ref: use}}}}
			case "operationId":
				o.ID = n
			case "resp-header":
				o.Responses = []dialect.Response{{Status: "200", Headers: []dialect.Header{{Name: n, Schema: str}}}}
			case "path-literal":
				if strings.ContainsAny(n, "/ \"\\") {
					continue
				}
				raw = "/" + n + "/sub"
			case "component-response":
				if strings.ContainsAny(n, " /\"\\$") || n == "é" || n == "名前" {
					continue
				}
				sp.CompResponses[n] = dialect.Response{Content: "application/json", Schema: objAB()}
				o.Responses = []dialect.Response{{Status: "200", Ref: n}}
			case "component-param":
				if strings.ContainsAny(n, " /\"\\$") || n == "é" || n == "名前" {
					continue
				}
				sp.CompParams[n] = dialect.Param{Name: "q", In: "query", Schema: str}
				o.Params = []dialect.Param{{Ref: n, Name: "q", In: "query", Schema: str}}
			case "component-body":
				if strings.ContainsAny(n, " /\"\\$") || n == "é" || n == "名前" {
					continue
				}
				sp.CompBodies[n] = dialect.Body{Content: "application/json", Schema: objAB()}
				o.Method = "POST"
				o.Body = &dialect.Body{Ref: n}
			case "component-header":
				if strings.ContainsAny(n, " /\"\\$") || n == "é" || n == "名前" {
					continue
				}
				sp.CompHeaders[n] = dialect.Header{Schema: str}
				o.Responses = []dialect.Response{{Status: "200", Headers: []dialect.Header{{Name: "X-Val", Ref: n}}}}
			case "security-scheme":
				if strings.ContainsAny(n, " /\"\\$") || n == "é" || n == "名前" {
					continue
				}
				sp.Schemes = []dialect.Scheme{{Name: n, Kind: "keyheader", Param: "X-Key"}}
				sec := []dialect.Requirement{{n}}
				o.Security = &sec
			case "addl-key":
				continue
			}
			sp.Paths = []*dialect.PathItem{{Raw: raw, Ops: []*dialect.Op{o}}}
			add(fmt.Sprintf("name/%s/%s", pos, n), sp, "name", pos, n)
		}
	}
	// E. free-text shapes at every description position
	texts := []string{"plain", "two\nlines", "ends with newline\n", "with */ star-slash", "with /* slash-star", "// slashes", "quote \" and backtick ` and \\ backslash",
		"tab\there", "trailing space ", "\nleading newline", "unicode é 名前", "{{ template }}", "%d %s", "line1\r\nline2", "a\n\n\nb", strings.Repeat("long ", 60),
		// continuation lines that are Go declarations: a text that escapes its comment is then not stopped by the parser
		"Lists items.\nvar total int = \"many\"", "doc\nfunc init() { undefinedName() }\n"}
	for ti, t := range texts {
		for _, pos := range []string{"info", "op-summary", "op-description", "param", "schema", "property", "response", "resp-header", "component-response", "reqbody-comp", "path-param"} {
			sp := c01Base()
			o := &dialect.Op{Method: "GET", Responses: okResp()}
			raw := "/x"
			switch pos {
			case "info":
				sp.InfoDesc = t
			case "op-summary":
				o.Summary = t
			case "op-description":
				o.Desc = t
			case "param":
				o.Params = []dialect.Param{{Name: "q", In: "query", Schema: &dialect.Schema{Type: "string"}, Desc: t}}
			case "path-param":
				raw = "/x/{v}"
				o.Params = []dialect.Param{{Name: "v", In: "path", Required: true, Schema: &dialect.Schema{Type: "string"}, Desc: t}}
			case "schema":
				s := objAB()
				s.Desc = t
				sp.CompSchemas = []dialect.Prop{{Name: "Pet", Schema: s}}
			case "property":
				s := objAB()
				s.Props[0].Schema.Desc = t
				s.Props[1].Schema.Desc = t
				sp.CompSchemas = []dialect.Prop{{Name: "Pet", Schema: s}}
			case "response":
				o.Responses = []dialect.Response{{Status: "200", Desc: t, Content: "application/json", Schema: objAB()}}
			case "resp-header":
				o.Responses = []dialect.Response{{Status: "200", Headers: []dialect.Header{{Name: "X-Val", Schema: &dialect.Schema{Type: "string"}, Desc: t}}}}
			case "component-response":
				sp.CompResponses["Result"] = dialect.Response{Desc: t, Content: "application/json", Schema: objAB()}
				sp.CompResponses["Alias"] = dialect.Response{Ref: "Result"}
				o.Responses = []dialect.Response{{Status: "200", Ref: "Result"}, {Status: "404", Ref: "Alias"}}
			case "reqbody-comp":
				continue
			}
			sp.Paths = []*dialect.PathItem{{Raw: raw, Ops: []*dialect.Op{o}}}
			add(fmt.Sprintf("text/%s/%d", pos, ti), sp, "text", pos, strconv.Itoa(ti))
		}
	}
	// F. routing shapes (names of route functions), security shapes
	for i, set := range [][]string{
		{"/"}, {"/a", "/a/"}, {"/a/{x}", "/a/{x}/b", "/a/b"}, {"/s/{shop}/p", "/s/shop/q"}, {"/a-b", "/a_b"}, {"/a/b", "/a_b"}, {"/{x}", "/{x}/{y}", "/{x}/y"},
		{"/a/{x}/", "/a/{x}"}, {"/A", "/a"}, {"/v1/items/{item_id}/parts/{part-id}"}, {"/a.b/c"}, {"/x/{id}", "/x/{id}/ids"}, {"/get", "/post"}, {"/api", "/client"},
		// a literal child and a variable child of one node that both go on (the literal is tried first, then the variable)
		{"/shops/mine/pets", "/shops/{shop}/pets"}, {"/u/me/a/b", "/u/{id}/a/c", "/u/{id}"}, {"/a/b/c", "/a/{x}/c", "/a/{x}/d/{y}"},
	} {
		sp := c01Base()
		for _, raw := range set {
			pi := &dialect.PathItem{Raw: raw}
			for _, m := range []string{"GET", "POST"} {
				pi.Ops = append(pi.Ops, &dialect.Op{Method: m, Responses: okResp()})
			}
			pi.Params = pathParams(raw)
			sp.Paths = append(sp.Paths, pi)
		}
		add(fmt.Sprintf("routes/%d", i), sp, "routes", strings.Join(set, " "))
	}
	for _, m := range []string{"GET", "POST", "PUT", "PATCH", "DELETE", "HEAD", "OPTIONS", "TRACE"} {
		sp := c01Base()
		sp.Paths = []*dialect.PathItem{{Raw: "/x", Ops: []*dialect.Op{{Method: m, Responses: okResp()}}}}
		add("method/"+m, sp, "method", m)
	}
	// CORS on: the synthesized preflight next to every declared method, incl. an explicit OPTIONS operation, on literal and
	// variable last segments, with and without header parameters and security
	for _, raw := range []string{"/x", "/x/{id}", "/", "/x/"} {
		for _, ms := range [][]string{{"OPTIONS"}, {"GET", "OPTIONS"}, {"GET", "POST", "OPTIONS", "DELETE"}, {"GET"}, {"HEAD", "TRACE", "PATCH", "PUT"}} {
			sp := c01Base()
			pi := &dialect.PathItem{Raw: raw, Params: pathParams(raw)}
			for _, m := range ms {
				o := &dialect.Op{Method: m, Responses: okResp()}
				if m == "GET" {
					o.Params = []dialect.Param{{Name: "X-Trace", In: "header", Schema: &dialect.Schema{Type: "string"}}}
				}
				pi.Ops = append(pi.Ops, o)
			}
			sp.Paths = []*dialect.PathItem{pi}
			sp.Schemes = []dialect.Scheme{{Name: "k", Kind: "keyheader", Param: "X-Key"}}
			sp.Global, sp.HasGlobal = []dialect.Requirement{{"k"}}, true
			cells = append(cells, c01cell{name: fmt.Sprintf("cors/%s/%s", raw, strings.Join(ms, "+")), sp: sp, tags: []string{"cors"},
				opts: []c01opt{c01Opts[2], c01Opts[5], {"api+cors", gen.Options{API: true, Cors: true, DoNotEdit: true}, ""}}})
		}
	}
	for i, kinds := range [][]string{{"bearer"}, {"keyheader"}, {"keyquery"}, {"bearer", "keyheader"}, {"keyheader", "keyquery"}, {"bearer", "keyheader", "keyquery"}} {
		for _, global := range []bool{false, true} {
			sp := c01Base()
			var reqs []dialect.Requirement
			for j, k := range kinds {
				n := fmt.Sprintf("S%d", j)
				sp.Schemes = append(sp.Schemes, dialect.Scheme{Name: n, Kind: k, Param: "X-Key-" + n})
				reqs = append(reqs, dialect.Requirement{n})
			}
			o := &dialect.Op{Method: "GET", Responses: okResp()}
			o2 := &dialect.Op{Method: "POST", Responses: okResp()}
			if global {
				sp.Global, sp.HasGlobal = reqs, true
				none := []dialect.Requirement{}
				o2.Security = &none
			} else {
				o.Security = &reqs
			}
			sp.Paths = []*dialect.PathItem{{Raw: "/x", Ops: []*dialect.Op{o, o2}}}
			add(fmt.Sprintf("security/%d/global=%v", i, global), sp, "security")
		}
	}
	// G. status key shapes
	for _, st := range []string{"200", "201", "204", "301", "404", "500", "default", "2XX", "4xx", "099", "600", "abc"} {
		sp := c01Base()
		sp.Paths = []*dialect.PathItem{{Raw: "/x", Ops: []*dialect.Op{{Method: "GET", Responses: []dialect.Response{{Status: st, Content: "application/json", Schema: objAB()}}}}}}
		add("status/"+st, sp, "status", st)
	}
	return cells
}

// seeded compositions: several features in one document
func c01Compositions(rng *rand.Rand, n int) []c01cell {
	var cells []c01cell
	ks := c01Structured()
	for i := 0; i < n; i++ {
		sp := c01Base()
		nops := 2 + rng.Intn(4)
		for oi := 0; oi < nops; oi++ {
			raw := fmt.Sprintf("/c%d", oi)
			o := &dialect.Op{Method: []string{"GET", "POST", "PUT", "DELETE"}[rng.Intn(4)]}
			pi := &dialect.PathItem{Raw: raw}
			if rng.Intn(2) == 0 {
				pi.Raw += "/{id}"
				pi.Params = []dialect.Param{{Name: "id", In: "path", Required: true, Schema: c01Prims[rng.Intn(len(c01Prims))].mk()}}
			}
			for k := 0; k < rng.Intn(4); k++ {
				in := []string{"query", "header"}[rng.Intn(2)]
				sc := c01Prims[rng.Intn(len(c01Prims))].mk()
				if in == "query" && rng.Intn(3) == 0 {
					sc = &dialect.Schema{Type: "array", Items: sc}
				}
				o.Params = append(o.Params, dialect.Param{Name: fmt.Sprintf("p%d_%s", k, in), In: in, Required: rng.Intn(2) == 0, Schema: sc})
			}
			if o.Method != "GET" && rng.Intn(2) == 0 {
				k := ks[rng.Intn(len(ks))]
				addComps(sp, k.comp)
				o.Body = &dialect.Body{Content: "application/json", Schema: k.mk(), Required: true}
			}
			for _, st := range [][]string{{"200"}, {"200", "404"}, {"201", "default"}, {"default"}}[rng.Intn(4)] {
				r := dialect.Response{Status: st}
				if rng.Intn(2) == 0 {
					k := ks[rng.Intn(len(ks))]
					addComps(sp, k.comp)
					r.Content, r.Schema = "application/json", k.mk()
				}
				if rng.Intn(3) == 0 {
					r.Headers = []dialect.Header{{Name: "X-Count", Required: rng.Intn(2) == 0, Schema: c01Prims[rng.Intn(len(c01Prims))].mk()}}
				}
				o.Responses = append(o.Responses, r)
			}
			pi.Ops = []*dialect.Op{o}
			sp.Paths = append(sp.Paths, pi)
		}
		for k := 0; k < rng.Intn(3); k++ {
			kd := ks[rng.Intn(len(ks))]
			addComps(sp, kd.comp)
			sp.CompSchemas = append(sp.CompSchemas, dialect.Prop{Name: fmt.Sprintf("Extra%d", k), Schema: kd.mk()})
		}
		cells = append(cells, c01cell{name: fmt.Sprintf("compose/%d", i), sp: sp, tags: []string{"compose"}})
	}
	return cells
}

type c01opt struct {
	name string
	o    gen.Options
	base string // servers url
}

var c01Opts = []c01opt{
	{"api", gen.Options{API: true, DoNotEdit: true}, ""},
	{"api+client", gen.Options{API: true, Client: true, DoNotEdit: true}, ""},
	{"api+client+edit+cors+base", gen.Options{API: true, Client: true, DoNotEdit: false, Cors: true, BasePath: "/api/v1"}, ""},
	{"api+edit+servers-var", gen.Options{API: true, DoNotEdit: false}, "https://example.com/base/{v}"},
	{"api+client+cors+servers-var", gen.Options{API: true, Client: true, Cors: true, DoNotEdit: true}, "https://example.com/base/{v}"},
	{"api+cors+servers", gen.Options{API: true, Cors: true, DoNotEdit: true}, "/srv"},
}

func runC01(c runCfg) error {
	rng := rand.New(rand.NewSource(c.Seed))
	var cells []c01cell
	var pkgs []*scratch.Pkg
	var lines []string
	if c.Cases != "" {
		ls, err := readLines(c.Cases)
		if err != nil {
			return err
		}
		lines = ls
		pkgs = pkgsFromDLines(lines)
	} else {
		all := c01Matrix()
		comp := 40
		if c.Thorough {
			comp = 600
		}
		all = append(all, c01Compositions(rng, comp)...)
		// (quick: every cell too — a change that breaks one cell must not depend on a sample for being seen — but the large
		//  families with one flag set each, api+client, and a second one for every fourth cell)
		cells = all
		for i, cl := range cells {
			// flag combinations: thorough = api and api+client for every cell, the others on a rotating subset; quick = one rotating choice + api+client
			var opts []c01opt
			if cl.opts != nil {
				opts = cl.opts
			} else if c.Thorough {
				opts = []c01opt{c01Opts[0], c01Opts[1], c01Opts[2+i%4]}
			} else {
				opts = []c01opt{c01Opts[1], c01Opts[(i%5+2)%6]}
				big := cl.tags[0] == "param" || cl.tags[0] == "json" || cl.tags[0] == "resphdr" || cl.tags[0] == "name" || cl.tags[0] == "text"
				if opts[1].name == opts[0].name || (big && i%4 != 0) {
					opts = opts[:1]
				}
			}
			for _, op := range opts {
				sp := *cl.sp
				if op.base != "" {
					sp.ServerURL = op.base
					if strings.Contains(op.base, "{v}") {
						sp.ServerVar = map[string]string{"v": "v9"}
					}
				}
				p := &scratch.Pkg{Name: fmt.Sprintf("p%05d", len(pkgs)), Doc: sp.Doc(), Opts: op.o}
				pkgs = append(pkgs, p)
				lines = append(lines, DLine(p), fmt.Sprintf("C01 %s %s %s", p.Name, dialect.Hx(cl.name), op.name))
			}
		}
	}
	if c.Cases == "" {
		lines = append(lines, c01NameLines(rng, c.Thorough)...)
		lines = append(lines, c01TextLines(rng, c.Thorough)...)
	}
	root, err := mkRoot(c)
	if err != nil {
		return err
	}
	defer rmRoot(root)
	m, err := scratch.New(root, pkgs)
	if err != nil {
		return err
	}
	if err := m.BuildOnly(); err != nil {
		return err
	}
	byName := map[string]*scratch.Pkg{}
	for _, p := range pkgs {
		byName[p.Name] = p
	}
	impl := make([]string, len(lines))
	counts := map[string]int{}
	for i, l := range lines {
		f := strings.Split(l, " ")
		if f[0] == "N" && len(f) == 3 && f[1] == "pfn" {
			impl[i] = "impl=" + dialect.Hx(generator.PublicFieldName(dialect.UnHx(f[2])))
			counts["names"]++
			continue
		}
		if f[0] == "N" && len(f) == 3 && f[1] == "cmt" {
			impl[i] = c01CommentImpl(dialect.UnHx(f[2]))
			counts["comments"]++
			continue
		}
		if f[0] == "N" && len(f) == 3 && f[1] == "lex" {
			lx := &lexState{}
			lx.feed(dialect.UnHx(f[2]))
			impl[i] = "impl=" + lx.name()
			counts["lexer"]++
			continue
		}
		if f[0] != "C01" {
			impl[i] = "SKIP"
			continue
		}
		p := byName[f[1]]
		switch {
		case p == nil:
			impl[i] = "SKIP"
		case p.GenPanic != "":
			impl[i] = "impl=panic detail=" + dialect.Hx(p.GenPanic)
		case p.GenErr != "":
			impl[i] = "impl=rejected detail=" + dialect.Hx(p.GenErr)
		default:
			verdict, detail := judgePackage(filepath.Join(root, p.Name))
			if verdict == "ok" && p.BuildErr != "" {
				verdict, detail = "typecheck", p.BuildErr
			}
			impl[i] = "impl=" + verdict
			if detail != "" {
				impl[i] += " detail=" + dialect.Hx(detail)
			}
		}
		counts[strings.Fields(strings.TrimPrefix(impl[i], "impl="))[0]]++
	}
	fam := map[string]int{}
	for _, cl := range cells {
		fam[cl.tags[0]]++
	}
	// which of the generator's named templates the corpus executed (TEMPLATE_DEBUG markers of a second generation pass)
	tcov := map[string]int{}
	for _, p := range pkgs {
		for _, t := range p.Templates {
			tcov[t]++
		}
	}
	var never []string
	for _, n := range templateNames() {
		if tcov[n] == 0 {
			never = append(never, n)
		}
	}
	meta := map[string]interface{}{"cells": len(cells), "packages_generated": len(pkgs), "verdicts": counts, "cells_by_family": fam,
		"templates_executed": tcov, "templates_never_executed_by_name": never}
	return writeFam(c, &famResult{Cases: lines, Impl: impl, Pkgs: nil}, meta)
}

// ASCII names for the differential run of generator.PublicFieldName against the model:
// a shape grammar (words joined by separators, camel humps, digits, id/ids forms) plus random bytes
func c01NameLines(rng *rand.Rand, thorough bool) []string {
	n := 4000
	if thorough {
		n = 60000
	}
	words := []string{"a", "id", "ids", "Id", "ID", "user", "User", "URL", "api", "x", "v2", "2fa", "kid", "grid", "uuid", "Uuid", "http", "Z", "q1", "1", "0x", "name", "Ids", "iD"}
	seps := []string{"", "_", "-", ".", " ", "__", "-_", "/", "$", "1", "9_"}
	seen := map[string]bool{}
	var out []string
	for len(out) < n {
		var b strings.Builder
		switch rng.Intn(3) {
		case 0, 1:
			k := 1 + rng.Intn(4)
			for i := 0; i < k; i++ {
				if i > 0 || rng.Intn(6) == 0 {
					b.WriteString(seps[rng.Intn(len(seps))])
				}
				b.WriteString(words[rng.Intn(len(words))])
			}
			if rng.Intn(8) == 0 {
				b.WriteString(seps[rng.Intn(len(seps))])
			}
		default:
			k := rng.Intn(9)
			for i := 0; i < k; i++ {
				b.WriteByte(byte(32 + rng.Intn(95)))
			}
		}
		s := b.String()
		if seen[s] {
			if len(seen) > 20000 && !thorough {
				break
			}
			continue
		}
		seen[s] = true
		out = append(out, "N pfn "+dialect.Hx(s))
	}
	return out
}

// c01CommentImpl runs the generator's own `comment` template function on a free text — through the StructureField template,
// which writes `// {{ comment .Comment }}` — and checks with go/scanner that the text it wrote consists of comments only
func c01CommentImpl(text string) string {
	out, err := generator.ExecuteTemplate("StructureField", struct {
		Comment     string
		Embedded    bool
		Name        string
		FieldTypeFn func() (string, error)
	}{text, true, "", func() (string, error) { return "T", nil }})
	if err != nil {
		return "SKIP template-error"
	}
	out = strings.TrimPrefix(strings.TrimSuffix(out, "/** <<< StructureField */"), "/** StructureField >>> */")
	if !strings.HasPrefix(out, "// ") || !strings.HasSuffix(out, "\nT") {
		return "SKIP template-shape"
	}
	body := strings.TrimSuffix(strings.TrimPrefix(out, "// "), "\nT")
	// the Go scanner's view of what was written before the field type
	var sc scanner.Scanner
	fset := token.NewFileSet()
	src := []byte(strings.TrimSuffix(out, "T"))
	sc.Init(fset.AddFile("", fset.Base(), len(src)), src, nil, scanner.ScanComments)
	for {
		_, tok, _ := sc.Scan()
		if tok == token.EOF {
			break
		}
		if tok != token.COMMENT && tok != token.SEMICOLON {
			return "impl=ESCAPES:" + dialect.Hx(body)
		}
	}
	return "impl=" + dialect.Hx(body)
}

// free texts and Go-ish text for the differential runs of the comment function and of the translator's lexer
func c01TextLines(rng *rand.Rand, thorough bool) []string {
	n := 1500
	if thorough {
		n = 20000
	}
	atoms := []string{"\n", "\n", "\n\n", "\r\n", "\r", "//", "/*", "*/", "\"", "`", "'", "\\", " ", "a", "var x = 1", "func f() {}", "é", "\t", "*", "/", "x"}
	seen := map[string]bool{"": true}
	var out []string
	for len(out) < 2*n {
		var b strings.Builder
		k := rng.Intn(8)
		for i := 0; i < k; i++ {
			b.WriteString(atoms[rng.Intn(len(atoms))])
		}
		s := b.String()
		if seen[s] {
			if len(out) > n && len(seen) > n/2 {
				break
			}
			continue
		}
		seen[s] = true
		out = append(out, "N cmt "+dialect.Hx(s), "N lex "+dialect.Hx(s))
	}
	// the literal text of the generator's own templates, as the translator feeds it
	files, _ := filepath.Glob("/repo/generator/*.gotmpl")
	for _, f := range files {
		if src, err := os.ReadFile(f); err == nil {
			txt := string(src)
			for _, cut := range []int{len(txt), len(txt) / 2, len(txt) / 3} {
				out = append(out, "N lex "+dialect.Hx(txt[:cut]))
			}
		}
	}
	return out
}

// judgePackage: every .go file parses, is gofmt-stable and imports the standard library only
func judgePackage(dir string) (string, string) {
	ents, err := os.ReadDir(dir)
	if err != nil {
		return "nofiles", err.Error()
	}
	var names []string
	for _, e := range ents {
		if strings.HasSuffix(e.Name(), ".go") {
			names = append(names, e.Name())
		}
	}
	sort.Strings(names)
	if len(names) == 0 {
		return "nofiles", "no .go file written"
	}
	for _, n := range names {
		bs, err := os.ReadFile(filepath.Join(dir, n))
		if err != nil {
			return "nofiles", err.Error()
		}
		fset := token.NewFileSet()
		f, err := parser.ParseFile(fset, n, bs, parser.ParseComments)
		if err != nil {
			return "syntax", n + ": " + err.Error()
		}
		out, err := format.Source(bs)
		if err != nil {
			return "syntax", n + ": " + err.Error()
		}
		if !bytes.Equal(out, bs) {
			return "gofmt", n + ": not gofmt-stable"
		}
		for _, im := range f.Imports {
			path := strings.Trim(im.Path.Value, "\"")
			if strings.Contains(strings.Split(path, "/")[0], ".") {
				return "import", n + ": non-standard import " + path
			}
		}
	}
	return "ok", ""
}
