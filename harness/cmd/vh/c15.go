package main

import (
	"context"
	"encoding/json"
	"fmt"
	"math/rand"
	"os"
	"os/exec"
	"path/filepath"
	"regexp"
	"sort"
	"strings"
	"time"

	"github.com/getkin/kin-openapi/openapi3"
	"github.com/ghodss/yaml"

	"verifharness/internal/dialect"
	"verifharness/internal/gen"
	"verifharness/internal/pool"
)

func init() { commands["C15"] = runC15 }

// ---------------------------------------------------------------------------
// structural mutation of a JSON document

type jpath []interface{} // string keys and int indices

func walk(v interface{}, p jpath, f func(p jpath, v interface{})) {
	f(p, v)
	switch x := v.(type) {
	case map[string]interface{}:
		keys := make([]string, 0, len(x))
		for k := range x {
			keys = append(keys, k)
		}
		sort.Strings(keys)
		for _, k := range keys {
			walk(x[k], append(append(jpath{}, p...), k), f)
		}
	case []interface{}:
		for i, e := range x {
			walk(e, append(append(jpath{}, p...), i), f)
		}
	}
}

func deepCopy(v interface{}) interface{} {
	bs, _ := json.Marshal(v)
	var out interface{}
	json.Unmarshal(bs, &out)
	return out
}

// set replaces (or deletes, when del) the node at path p in a copy of root
func mutateAt(root interface{}, p jpath, del bool, nv interface{}) interface{} {
	cp := deepCopy(root)
	if len(p) == 0 {
		return nv
	}
	cur := cp
	for _, s := range p[:len(p)-1] {
		switch x := cur.(type) {
		case map[string]interface{}:
			cur = x[s.(string)]
		case []interface{}:
			cur = x[s.(int)]
		}
	}
	last := p[len(p)-1]
	switch x := cur.(type) {
	case map[string]interface{}:
		if del {
			delete(x, last.(string))
		} else {
			x[last.(string)] = nv
		}
	case []interface{}:
		if !del {
			x[last.(int)] = nv
		}
	}
	return cp
}

func (p jpath) String() string {
	var parts []string
	for _, s := range p {
		parts = append(parts, fmt.Sprint(s))
	}
	return strings.Join(parts, "/")
}

type mutant struct {
	base string
	kind string
	path string
	doc  []byte
}

func typeSwap(v interface{}, rng *rand.Rand) interface{} {
	alts := []interface{}{"text", 8443.0, true, map[string]interface{}{"x": "y"}, []interface{}{"a"}, map[string]interface{}{}}
	for tries := 0; tries < 10; tries++ {
		a := alts[rng.Intn(len(alts))]
		if fmt.Sprintf("%T", a) != fmt.Sprintf("%T", v) {
			return a
		}
	}
	return nil
}

func mutantsOf(name string, root interface{}, rng *rand.Rand, budget int) []mutant {
	type node struct {
		p jpath
		v interface{}
	}
	var nodes []node
	walk(root, nil, func(p jpath, v interface{}) {
		if len(p) > 0 {
			nodes = append(nodes, node{p, v})
		}
	})
	var out []mutant
	add := func(kind string, p jpath, d interface{}) {
		bs, err := json.Marshal(d)
		if err == nil {
			out = append(out, mutant{name, kind, p.String(), bs})
		}
	}
	// targeted mutations first
	for _, n := range nodes {
		last := fmt.Sprint(n.p[len(n.p)-1])
		switch {
		case last == "schema":
			add("drop-schema", n.p, mutateAt(root, n.p, true, nil))
			if len(n.p) >= 2 {
				// parameter with `content` instead of `schema`
				par := n.p[:len(n.p)-1]
				if m, ok := getAt(root, par).(map[string]interface{}); ok && m["in"] != nil {
					cp := deepCopy(m).(map[string]interface{})
					delete(cp, "schema")
					cp["content"] = map[string]interface{}{"application/json": map[string]interface{}{"schema": n.v}}
					add("content-parameter", n.p, mutateAt(root, par, false, cp))
				}
			}
		case last == "items":
			add("drop-items", n.p, mutateAt(root, n.p, true, nil))
		case last == "$ref":
			add("dangling-ref", n.p, mutateAt(root, n.p, false, fmt.Sprint(n.v)+"Missing"))
		case last == "type":
			add("unsupported-type", n.p, mutateAt(root, n.p, false, "tuple"))
		case last == "format":
			add("unsupported-format", n.p, mutateAt(root, n.p, false, "uuid7"))
		case last == "default" && len(n.p) >= 2 && fmt.Sprint(n.p[len(n.p)-3]) == "variables":
			add("nonstring-default", n.p, mutateAt(root, n.p, false, 8443.0))
			add("bool-default", n.p, mutateAt(root, n.p, false, true))
		}
	}
	// generic mutations on a seeded sample of nodes
	rng.Shuffle(len(nodes), func(i, j int) { nodes[i], nodes[j] = nodes[j], nodes[i] })
	for _, n := range nodes {
		if len(out) >= budget {
			break
		}
		add("delete", n.p, mutateAt(root, n.p, true, nil))
		add("null", n.p, mutateAt(root, n.p, false, nil))
		add("swap-type", n.p, mutateAt(root, n.p, false, typeSwap(n.v, rng)))
	}
	if len(out) > budget {
		out = out[:budget]
	}
	return out
}

func getAt(root interface{}, p jpath) interface{} {
	cur := root
	for _, s := range p {
		switch x := cur.(type) {
		case map[string]interface{}:
			cur = x[s.(string)]
		case []interface{}:
			cur = x[s.(int)]
		default:
			return nil
		}
	}
	return cur
}

// ---------------------------------------------------------------------------

var panicSite = regexp.MustCompile(`(?m)^\s+(/repo/[^\s:]+:\d+)`)

// worker: load with the real loader, generate, classify
func c15Worker(scratch string) func(string) string {
	return func(line string) string {
		doc := []byte(dialect.UnHx(line))
		// the loader itself (kin-openapi) panics on some documents: such a
		// document is not "accepted by the loader"
		accepted := func() (ok bool) {
			defer func() {
				if recover() != nil {
					ok = false
				}
			}()
			_, err := openapi3.NewSwaggerLoader().LoadSwaggerFromData(doc)
			return err == nil
		}()
		if !accepted {
			return "loadfail"
		}
		d, err := os.MkdirTemp(scratch, "g")
		if err != nil {
			return "ERROR mkdtemp"
		}
		defer os.RemoveAll(d)
		gerr, panicked, pv := gen.Generate(doc, d, gen.Options{API: true, Client: true, DoNotEdit: true})
		if panicked {
			return "panic " + dialect.Hx(fmt.Sprint(pv))
		}
		if gerr != nil {
			return "err " + dialect.Hx(gerr.Error())
		}
		return "ok"
	}
}

func runC15(c runCfg) error {
	if c.Worker {
		pool.Serve(c15Worker(c.Out))
		return nil
	}
	scratchDir, err := os.MkdirTemp(c.Out, "scratch")
	if err != nil {
		return err
	}
	defer os.RemoveAll(scratchDir)
	var ms []mutant
	if c.Cases != "" {
		ls, err := readLines(c.Cases)
		if err != nil {
			return err
		}
		for _, l := range ls {
			f := strings.Fields(l)
			if len(f) >= 5 && f[0] == "C15" {
				ms = append(ms, mutant{f[1], f[2], f[3], []byte(dialect.UnHx(f[4]))})
			}
		}
	} else {
		rng := rand.New(rand.NewSource(c.Seed))
		type base struct {
			name string
			root interface{}
		}
		var bases []base
		addBase := func(name string, doc []byte) {
			js, err := yaml.YAMLToJSON(doc)
			if err != nil {
				return
			}
			var root interface{}
			if json.Unmarshal(js, &root) == nil {
				bases = append(bases, base{name, root})
			}
		}
		fix, _ := filepath.Glob("/repo/tests/*/openapi.yaml")
		for _, p := range fix {
			if bs, err := os.ReadFile(p); err == nil {
				addBase("fixture-"+filepath.Base(filepath.Dir(p)), bs)
			}
		}
		addBase("fat", []byte(c12Fat))
		addBase("c19", []byte(c19SpecWith))
		budget := 30
		if c.Thorough {
			budget = 900
		}
		for _, b := range bases {
			// the unmutated document first
			bs, _ := json.Marshal(b.root)
			ms = append(ms, mutant{b.name, "original", "-", bs})
			ms = append(ms, mutantsOf(b.name, b.root, rng, budget)...)
		}
		// alias graphs: every way three (thorough: four) component entries of one kind can be definitions or aliases of one another
		// (chains, self references, cycles, tails that lead into a cycle, in every sort order of the names)
		for gi, d := range c15AliasGraphs(c.Thorough) {
			ms = append(ms, mutant{fmt.Sprintf("aliasgraph-%d", gi), "original", "-", []byte(d)})
		}
		for si, d := range c15Shapes() {
			ms = append(ms, mutant{fmt.Sprintf("shape-%d", si), "original", "-", []byte(d)})
		}
		// hand-written documents for the historical crash sites
		for i, d := range c15Regression {
			addBase(fmt.Sprintf("regression-%d", i), []byte(d))
			b := bases[len(bases)-1]
			bs, _ := json.Marshal(b.root)
			ms = append(ms, mutant{b.name, "original", "-", bs})
		}
	}
	inputs := make([]string, len(ms))
	for i, m := range ms {
		inputs[i] = dialect.Hx(string(m.doc))
	}
	res, err := pool.Map([]string{"C15", "-worker", "-out", scratchDir}, inputs, 16)
	if err != nil {
		return err
	}
	// the command itself on a sample: exit status non-zero exactly on error
	cliBin := filepath.Join(scratchDir, "goag.bin")
	bcmd := exec.Command("go", "build", "-o", cliBin, "./cmd/goag")
	bcmd.Dir = "/repo"
	bcmd.Env = append(os.Environ(), "GOFLAGS=-mod=mod", "GOPROXY=off", "GOSUMDB=off", "GOTOOLCHAIN=local")
	if out, err := bcmd.CombinedOutput(); err != nil {
		return fmt.Errorf("build goag: %v\n%s", err, out)
	}
	cliEvery := len(ms)/40 + 1
	if c.Thorough {
		cliEvery = len(ms)/300 + 1
	}
	cli := map[int]string{}
	for i, m := range ms {
		if i%cliEvery != 0 || strings.HasPrefix(res[i], "loadfail") {
			continue
		}
		d, _ := os.MkdirTemp(scratchDir, "cli")
		sf := filepath.Join(d, "openapi.json")
		os.WriteFile(sf, m.doc, 0o644)
		ctx, cancel := context.WithTimeout(context.Background(), 20*time.Second)
		cmd := exec.CommandContext(ctx, cliBin, "-file", sf, "-out", filepath.Join(d, "out"), "-package", "t", "-client")
		out, err := cmd.CombinedOutput()
		hung := ctx.Err() != nil
		cancel()
		if hung {
			cli[i] = "timeout+panic" // (did not terminate: judged like a crash)
			os.RemoveAll(d)
			continue
		}
		code := 0
		if err != nil {
			if ee, ok := err.(*exec.ExitError); ok {
				code = ee.ExitCode()
			} else {
				code = -1
			}
		}
		st := fmt.Sprintf("%d", code)
		if strings.Contains(string(out), "panic:") || strings.Contains(string(out), "goroutine ") {
			st += "+panic"
		}
		cli[i] = st
		os.RemoveAll(d)
	}
	var cases, impl []string
	kinds := map[string]int{}
	outcomes := map[string]int{}
	for i, m := range ms {
		r := res[i]
		f := strings.SplitN(r, " ", 2)
		outcomes[f[0]]++
		if f[0] == "loadfail" {
			continue // not accepted by the loader: outside the property
		}
		kinds[m.kind]++
		// (the path of the mutated node is one field of the line: a key with a space in it — a media type with parameters — must not split it)
		cases = append(cases, fmt.Sprintf("C15 %s %s %s %s", m.base, m.kind, strings.ReplaceAll(m.path, " ", "%20"), dialect.Hx(string(m.doc))))
		cs := ""
		if v, ok := cli[i]; ok {
			cs = " cli=" + v
		}
		switch f[0] {
		case "ok":
			impl = append(impl, "impl=clean"+cs)
		case "err":
			msg := dialect.UnHx(f[1])
			loc := "located"
			if !strings.Contains(msg, ":") {
				loc = "unlocated"
			}
			impl = append(impl, "impl=clean outcome=error "+loc+cs+" msg="+f[1])
		case "panic":
			impl = append(impl, "impl=PANIC"+cs+" msg="+f[1])
		default:
			impl = append(impl, "impl=CRASH detail="+dialect.Hx(r))
		}
	}
	os.WriteFile(filepath.Join(c.Out, "cases.txt"), []byte(strings.Join(cases, "\n")+"\n"), 0o644)
	os.WriteFile(filepath.Join(c.Out, "impl.txt"), []byte(strings.Join(impl, "\n")+"\n"), 0o644)
	meta := map[string]interface{}{"mutants": len(ms), "accepted_by_loader": len(cases), "kinds": kinds, "outcomes": outcomes}
	bs, _ := json.MarshalIndent(meta, "", " ")
	return os.WriteFile(filepath.Join(c.Out, "meta.json"), bs, 0o644)
}

func c15AliasGraphs(thorough bool) []string {
	names := []string{"Aa", "Mm", "Zz"}
	if thorough {
		names = append(names, "Kk")
	}
	kinds := []struct{ section, def, use string }{
		{"schemas", `{"type":"object","properties":{"a":{"type":"string"}}}`, `"paths":{"/a":{"get":{"responses":{"200":{"description":"ok","content":{"application/json":{"schema":{"$ref":"#/components/schemas/%s"}}}}}}}}`},
		{"responses", `{"description":"r"}`, `"paths":{"/a":{"get":{"responses":{"200":{"$ref":"#/components/responses/%s"}}}}}`},
		{"parameters", `{"name":"q","in":"query","schema":{"type":"string"}}`, `"paths":{"/a":{"get":{"parameters":[{"$ref":"#/components/parameters/%s"}],"responses":{"200":{"description":"ok"}}}}}`},
		{"headers", `{"schema":{"type":"string"}}`, `"paths":{"/a":{"get":{"responses":{"200":{"description":"ok","headers":{"X-A":{"$ref":"#/components/headers/%s"}}}}}}}`},
		{"requestBodies", `{"content":{"application/json":{"schema":{"type":"object"}}}}`, `"paths":{"/a":{"post":{"requestBody":{"$ref":"#/components/requestBodies/%s"},"responses":{"200":{"description":"ok"}}}}}`},
	}
	var out []string
	n := len(names)
	total := 1
	for i := 0; i < n; i++ {
		total *= n + 1
	}
	for _, k := range kinds {
		for code := 0; code < total; code++ {
			c := code
			var entries []string
			for i := 0; i < n; i++ {
				choice := c % (n + 1)
				c /= n + 1
				if choice == n {
					entries = append(entries, fmt.Sprintf("%q:%s", names[i], k.def))
				} else {
					entries = append(entries, fmt.Sprintf(`%q:{"$ref":"#/components/%s/%s"}`, names[i], k.section, names[choice]))
				}
			}
			for _, used := range []string{names[0], names[n-1]} {
				out = append(out, fmt.Sprintf(`{"openapi":"3.0.0","info":{"title":"t","version":"1"},%s,"components":{%q:{%s}}}`,
					fmt.Sprintf(k.use, used), k.section, strings.Join(entries, ",")))
			}
		}
	}
	return out
}

// shapes found by the second round of seeded changes (and by the sub-agent's own probing of the unchanged tree)
func c15Shapes() []string {
	var out []string
	head := `{"openapi":"3.0.0","info":{"title":"t","version":"1"},`
	ok := `"responses":{"200":{"description":"ok"}}`
	// server variables: with and without default, null, non-string, unused, self-referential
	for _, v := range []string{`{}`, `{"default":null}`, `{"default":"v1"}`, `{"default":""}`, `{"enum":["a"]}`, `{"default":"{stage}"}`, `{"default":"a","description":"d"}`} {
		for _, u := range []string{"https://h/{stage}/v1", "/{stage}", "{stage}", "https://{stage}.example.com/api"} {
			out = append(out, head+fmt.Sprintf(`"servers":[{"url":%q,"variables":{"stage":%s}}],"paths":{"/a":{"get":{%s}}}}`, u, v, ok))
		}
	}
	// path templates: repeated variable, empty variable name, unbalanced braces, variable glued to text, undeclared / extra parameters
	for _, raw := range []string{"/a/{id}/b/{id}", "/{id}/{id}", "/a/{}", "/a/{id", "/a/id}", "/a/x{id}", "/a/{id}y", "/a/{i d}", "/{a}{b}", "//", "/a//b", "/a/{id}/"} {
		for _, decl := range []string{`[{"name":"id","in":"path","required":true,"schema":{"type":"string"}}]`, `[]`,
			`[{"name":"id","in":"path","required":true,"schema":{"type":"integer"}},{"name":"other","in":"path","required":true,"schema":{"type":"string"}}]`} {
			out = append(out, head+fmt.Sprintf(`"paths":{%q:{"parameters":%s,"get":{%s}}}}`, raw, decl, ok))
		}
	}
	// custom Go types: every shape of the extension value
	for _, ct := range []string{"gopkg.in/Type", "Type", "pkg.Type", "a.b/c.D", "", ".", "pkg.", ".Type", "/x.Y", "x.y.z", "github.com/a/b.T", "a/b", "a.b/c", "[]pkg.T", "*pkg.T", "map[string]pkg.T", "pkg.T[int]", " pkg.T ", "pkg..T"} {
		for _, pos := range []string{"component", "property", "param"} {
			sch := fmt.Sprintf(`{"type":"string","x-goag-go-type":%q}`, ct)
			obj := fmt.Sprintf(`{"type":"object","properties":{"a":{"type":"string"}},"x-goag-go-type":%q}`, ct)
			switch pos {
			case "component":
				out = append(out, head+fmt.Sprintf(`"paths":{"/a":{"get":{"responses":{"200":{"description":"ok","content":{"application/json":{"schema":{"$ref":"#/components/schemas/T"}}}}}}}},"components":{"schemas":{"T":%s}}}`, obj))
			case "property":
				out = append(out, head+fmt.Sprintf(`"paths":{"/a":{"get":{%s}}},"components":{"schemas":{"H":{"type":"object","properties":{"f":%s}}}}}`, ok, sch))
			case "param":
				out = append(out, head+fmt.Sprintf(`"paths":{"/a":{"get":{"parameters":[{"name":"q","in":"query","schema":%s}],%s}}}}`, sch, ok))
			}
		}
	}
	// compositions defined in place inside one another, at every position a schema can take
	objA, objB := `{"type":"object","properties":{"a":{"type":"string"}}}`, `{"type":"object","properties":{"b":{"type":"integer"}}}`
	oneOfAB := `{"oneOf":[` + objA + `,` + objB + `]}`
	allOfAB := `{"allOf":[` + objA + `,` + objB + `]}`
	for _, sch := range []string{
		`{"allOf":[` + objA + `,` + oneOfAB + `]}`, `{"allOf":[{"$ref":"#/components/schemas/Base"},` + oneOfAB + `]}`, `{"allOf":[` + oneOfAB + `]}`,
		`{"oneOf":[` + allOfAB + `,` + objB + `]}`, `{"oneOf":[` + oneOfAB + `,` + objA + `]}`, `{"allOf":[` + allOfAB + `,` + objA + `]}`,
		`{"allOf":[{"type":"string"},` + objA + `]}`, `{"allOf":[{"type":"array","items":{"type":"string"}}]}`, `{"allOf":[]}`, `{"oneOf":[]}`, `{"oneOf":[{"type":"string"}]}`,
		`{"allOf":[{"$ref":"#/components/schemas/Str"}]}`, `{"oneOf":[{"$ref":"#/components/schemas/Str"},{"$ref":"#/components/schemas/Base"}]}`,
		`{"anyOf":[` + objA + `,` + objB + `]}`, `{"not":` + objA + `}`, `{"type":"object","additionalProperties":` + oneOfAB + `}`,
		`{"type":"array","items":` + oneOfAB + `}`, `{"type":"array","items":` + allOfAB + `}`, `{"type":"object","properties":{"p":` + oneOfAB + `,"q":` + allOfAB + `}}`,
		`{"oneOf":[` + objA + `,` + objB + `],"discriminator":{"propertyName":"a"}}`, `{"allOf":[` + objA + `],"discriminator":{"propertyName":"a"}}`,
	} {
		comps := `"components":{"schemas":{"Base":` + objB + `,"Str":{"type":"string"},"T":` + sch + `}}`
		for _, pos := range []string{"component", "response", "requestbody", "param"} {
			switch pos {
			case "component":
				out = append(out, head+fmt.Sprintf(`"paths":{"/a":{"get":{%s}}},%s}`, ok, comps))
			case "response":
				out = append(out, head+fmt.Sprintf(`"paths":{"/a":{"get":{"responses":{"200":{"description":"ok","content":{"application/json":{"schema":%s}}}}}}},%s}`, sch, comps))
			case "requestbody":
				out = append(out, head+fmt.Sprintf(`"paths":{"/a":{"post":{"requestBody":{"content":{"application/json":{"schema":%s}}},%s}}},%s}`, sch, ok, comps))
			case "param":
				out = append(out, head+fmt.Sprintf(`"paths":{"/a":{"get":{"parameters":[{"name":"q","in":"query","schema":%s}],%s}}},%s}`, sch, ok, comps))
			}
		}
	}
	// order of construction: a component schema that refers, at every position a reference can take, to a component whose
	// name sorts before it, after it, or to itself (recursive types), the target being an object, an array, a primitive or a oneOf
	for _, target := range []string{"Aa", "Zz", "Mm"} {
		for tk, tdef := range []string{objA, `{"type":"array","items":{"type":"string"}}`, `{"type":"string"}`, oneOfAB, `{"type":"array","items":` + objA + `}`} {
			ref := fmt.Sprintf(`{"$ref":"#/components/schemas/%s"}`, target)
			for _, referrer := range []string{
				`{"type":"array","items":` + ref + `}`,
				`{"type":"object","properties":{"kids":{"type":"array","items":` + ref + `},"n":{"type":"string"}}}`,
				`{"type":"object","properties":{"next":` + ref + `}}`,
				`{"type":"object","required":["next"],"properties":{"next":` + ref + `}}`,
				`{"type":"object","additionalProperties":` + ref + `}`,
				`{"allOf":[` + ref + `,` + objB + `]}`,
				`{"oneOf":[` + ref + `,` + objB + `]}`,
				`{"type":"array","items":{"type":"array","items":` + ref + `}}`,
				`{"type":"object","properties":{"m":{"type":"object","additionalProperties":{"type":"array","items":` + ref + `}}}}`,
				ref,
			} {
				var entries []string
				if target == "Mm" {
					if tk > 0 {
						continue // (a self reference has no separate target definition)
					}
					entries = []string{`"Mm":` + referrer}
				} else {
					entries = []string{fmt.Sprintf(`%q:%s`, target, tdef), `"Mm":` + referrer}
				}
				comps := `"components":{"schemas":{` + strings.Join(entries, ",") + `}}`
				out = append(out, head+fmt.Sprintf(`"paths":{"/a":{"get":{"responses":{"200":{"description":"ok","content":{"application/json":{"schema":{"$ref":"#/components/schemas/Mm"}}}}}}}},%s}`, comps))
				out = append(out, head+fmt.Sprintf(`"paths":{"/a":{"get":{%s}}},%s}`, ok, comps))
			}
		}
	}
	// references by JSON pointer to places outside components: to themselves (the loader leaves such a reference unresolved) and to
	// the same kind of element elsewhere in the document
	{
		rsp := `"responses":{"200":{"description":"ok"}}`
		for _, d := range []string{
			`"paths":{"/pets":{"get":{"parameters":[{"$ref":"#/paths/~1pets/get/parameters/0"}],` + rsp + `}}}`,
			`"paths":{"/pets":{"parameters":[{"$ref":"#/paths/~1pets/parameters/0"}],"get":{` + rsp + `}}}`,
			`"paths":{"/pets":{"get":{"parameters":[{"name":"q","in":"query","schema":{"type":"string"}},{"$ref":"#/paths/~1pets/get/parameters/0"}],` + rsp + `}}}`,
			`"paths":{"/pets":{"get":{"parameters":[{"name":"q","in":"query","schema":{"type":"string"}}],` + rsp + `},"post":{"parameters":[{"$ref":"#/paths/~1pets/get/parameters/0"}],` + rsp + `}}}`,
			`"paths":{"/pets":{"get":{"responses":{"200":{"$ref":"#/paths/~1pets/get/responses/200"}}}}}`,
			`"paths":{"/pets":{"get":{"responses":{"200":{"description":"ok"},"404":{"$ref":"#/paths/~1pets/get/responses/200"}}}}}`,
			`"paths":{"/pets":{"post":{"requestBody":{"$ref":"#/paths/~1pets/post/requestBody"},` + rsp + `}}}`,
			`"paths":{"/pets":{"post":{"requestBody":{"content":{"application/json":{"schema":{"type":"object"}}}},` + rsp + `},"put":{"requestBody":{"$ref":"#/paths/~1pets/post/requestBody"},` + rsp + `}}}`,
			`"paths":{"/pets":{"get":{"responses":{"200":{"description":"ok","content":{"application/json":{"schema":{"$ref":"#/paths/~1pets/get/responses/200/content/application~1json/schema"}}}}}}}}`,
			`"paths":{"/pets":{"get":{"responses":{"200":{"description":"ok","content":{"application/json":{"schema":{"type":"object","properties":{"self":{"$ref":"#/paths/~1pets/get/responses/200/content/application~1json/schema"}}}}}}}}}}`,
			`"paths":{"/pets":{"get":{"responses":{"200":{"description":"ok","headers":{"X-A":{"$ref":"#/paths/~1pets/get/responses/200/headers/X-A"}}}}}}}`,
			`"paths":{"/pets":{"get":{"parameters":[{"name":"q","in":"query","schema":{"$ref":"#/paths/~1pets/get/parameters/0/schema"}}],` + rsp + `}}}`,
			`"paths":{"/pets":{"get":{"parameters":[{"name":"q","in":"query","schema":{"type":"array","items":{"$ref":"#/paths/~1pets/get/parameters/0/schema"}}}],` + rsp + `}}}`,
			`"paths":{"/pets":{"get":{` + rsp + `}}},"components":{"schemas":{"A":{"$ref":"#/components/schemas/A"}}}`,
			`"paths":{"/pets":{"get":{` + rsp + `}}},"components":{"parameters":{"P":{"$ref":"#/components/parameters/P"}}}`,
			`"paths":{"/pets":{"get":{` + rsp + `}}},"components":{"headers":{"H":{"$ref":"#/components/headers/H"}}}`,
			`"paths":{"/pets":{"get":{` + rsp + `}}},"components":{"requestBodies":{"B":{"$ref":"#/components/requestBodies/B"}}}`,
			`"paths":{"/pets":{"get":{` + rsp + `}}},"components":{"responses":{"R":{"$ref":"#/components/responses/R"}}}`,
			`"paths":{"/pets":{"$ref":"#/paths/~1pets"}}`,
			`"paths":{"/pets":{"get":{` + rsp + `}},"/cats":{"$ref":"#/paths/~1pets"}}`,
		} {
			out = append(out, head+d+"}")
		}
	}
	// documents the generator refuses for how they USE a component response (the refusal paths build their messages from
	// both uses): as `default` and under a status, in either order of the operations, through an alias, twice in one operation
	{
		use := func(path, method, key, ref string) string {
			return fmt.Sprintf(`%q:{%q:{"responses":{%q:{"$ref":"#/components/responses/%s"}}}}`, path, method, key, ref)
		}
		comps := `"components":{"responses":{"Problem":{"description":"p"},"Alias":{"$ref":"#/components/responses/Problem"}}}`
		for _, d := range []string{
			use("/a", "get", "default", "Problem") + "," + use("/b", "get", "404", "Problem"),
			use("/a", "get", "404", "Problem") + "," + use("/b", "get", "default", "Problem"),
			use("/a", "get", "default", "Alias") + "," + use("/b", "get", "404", "Problem"),
			use("/a", "get", "default", "Problem") + "," + use("/b", "get", "404", "Alias"),
			use("/a", "post", "default", "Problem") + "," + use("/a/{id}", "get", "500", "Problem"),
			`"/a":{"get":{"responses":{"404":{"$ref":"#/components/responses/Problem"},"410":{"$ref":"#/components/responses/Problem"}}}}`,
			`"/a":{"get":{"responses":{"404":{"$ref":"#/components/responses/Problem"},"410":{"$ref":"#/components/responses/Alias"}}}}`,
			`"/a":{"get":{"responses":{"default":{"$ref":"#/components/responses/Problem"},"410":{"$ref":"#/components/responses/Problem"}}}}`,
			`"/a":{"get":{"responses":{"default":{"$ref":"#/components/responses/Problem"}}},"post":{"responses":{"200":{"$ref":"#/components/responses/Problem"}}}}`,
		} {
			out = append(out, head+`"paths":{`+d+`},`+comps+"}")
		}
	}
	// other goag extensions with odd values
	for _, v := range []string{`""`, `"2006"`, `5`, `null`, `{}`, `"time.RFC3339"`} {
		out = append(out, head+fmt.Sprintf(`"paths":{"/a":{"get":{"parameters":[{"name":"q","in":"query","schema":{"type":"string","format":"date-time","x-goag-go-time-format":%s}}],%s}}}}`, v, ok))
	}
	return out
}

var c15Regression = []string{
	// D20: media type / header / parameter without schema, array without items
	`{"openapi":"3.0.0","info":{"title":"t","version":"1"},"paths":{"/a":{"get":{"responses":{"200":{"description":"ok","content":{"application/json":{}}}}}}}}`,
	`{"openapi":"3.0.0","info":{"title":"t","version":"1"},"paths":{"/a":{"post":{"requestBody":{"content":{"application/octet-stream":{}}},"responses":{"200":{"description":"ok"}}}}}}`,
	`{"openapi":"3.0.0","info":{"title":"t","version":"1"},"paths":{"/a":{"get":{"parameters":[{"name":"q","in":"query"}],"responses":{"200":{"description":"ok","headers":{"X-A":{}}}}}}}}`,
	`{"openapi":"3.0.0","info":{"title":"t","version":"1"},"paths":{"/a":{"get":{"responses":{"200":{"description":"ok"}}}}},"components":{"schemas":{"A":{"type":"array"}}}}`,
	// D21: content parameter, null path item
	`{"openapi":"3.0.0","info":{"title":"t","version":"1"},"paths":{"/a":{"get":{"parameters":[{"name":"q","in":"query","content":{"application/json":{"schema":{"type":"string"}}}}],"responses":{"200":{"description":"ok"}}}}}}`,
	`{"openapi":"3.0.0","info":{"title":"t","version":"1"},"paths":{"/a":null}}`,
	// D22: non-string server variable default / enum
	`{"openapi":"3.0.0","info":{"title":"t","version":"1"},"servers":[{"url":"https://h:{port}/","variables":{"port":{"default":8443}}}],"paths":{}}`,
	`{"openapi":"3.0.0","info":{"title":"t","version":"1"},"servers":[{"url":"https://h/{v}","variables":{"v":{"default":"a","enum":["a",true]}}}],"paths":{}}`,
	// D25: response alias cycle
	`{"openapi":"3.0.0","info":{"title":"t","version":"1"},"paths":{"/a":{"get":{"responses":{"200":{"$ref":"#/components/responses/A"}}}}},"components":{"responses":{"A":{"$ref":"#/components/responses/B"},"B":{"$ref":"#/components/responses/A"}}}}`,
}
