package main

import (
	"fmt"
	"math/rand"
	"strings"

	"verifharness/internal/scratch"
)

func init() {
	commands["C03"] = runC03
	commands["genworker"] = func(runCfg) error { scratch.GenWorker(); return nil }
}

// C03 corpus: template sets x base-path forms; requests: the whole universe.
func c03Cases(c runCfg) ([]*scratch.Pkg, []string, map[string]interface{}) {
	rng := rand.New(rand.NewSource(c.Seed))
	var sets []tset
	small := enumTemplates(2, []string{"a", "b"})
	methodsFor := func(i int) []string {
		switch i % 4 {
		case 0:
			return []string{"GET"}
		case 1:
			return []string{"GET", "POST"}
		case 2:
			return []string{"POST"}
		}
		return []string{"DELETE", "GET"}
	}
	// all sets of <= 2 non-equivalent templates of depth <= 2 (covering subset in quick)
	var pairs []tset
	for i := range small {
		pairs = append(pairs, tset{Templates: []string{small[i]}, Methods: map[string][]string{small[i]: methodsFor(i)}})
		for j := i + 1; j < len(small); j++ {
			if equivKey(small[i]) == equivKey(small[j]) {
				continue
			}
			pairs = append(pairs, tset{Templates: []string{small[i], small[j]},
				Methods: map[string][]string{small[i]: methodsFor(i), small[j]: methodsFor(i + j)}})
		}
	}
	npairs := 40
	nrand := 40
	depth := 4
	if c.Thorough {
		npairs = len(pairs)
		nrand = 400
		depth = 5
	}
	rng.Shuffle(len(pairs), func(i, j int) { pairs[i], pairs[j] = pairs[j], pairs[i] })
	if npairs > len(pairs) {
		npairs = len(pairs)
	}
	sets = append(sets, pairs[:npairs]...)
	for n := 0; n < nrand; n++ {
		k := 3 + rng.Intn(5)
		seen := map[string]bool{}
		ts := tset{Methods: map[string][]string{}}
		for tries := 0; len(ts.Templates) < k && tries < 50; tries++ {
			t := randomTemplate(rng, 4, routerLits)
			if seen[equivKey(t)] {
				continue
			}
			seen[equivKey(t)] = true
			ts.Templates = append(ts.Templates, t)
			ts.Methods[t] = methodsFor(rng.Intn(4))
		}
		sets = append(sets, ts)
	}
	// the name of a variable is not part of a template's identity: within one document the templates name the variable at
	// one position differently (/a/{p2}/b next to /a/{w2}/c)
	for si := range sets {
		ts := &sets[si]
		if si%2 == 0 {
			continue
		}
		nm := map[string][]string{}
		for k, t := range ts.Templates {
			nt := strings.ReplaceAll(t, "{p", "{"+[]string{"p", "w", "z"}[k%3])
			nm[nt] = ts.Methods[t]
			ts.Templates[k] = nt
		}
		ts.Methods = nm
	}
	var pkgs []*scratch.Pkg
	var lines []string
	nreq := 0
	for i, ts := range sets {
		bf := baseForms[i%len(baseForms)]
		sp := specFromTemplates(ts)
		sp.ServerURL = bf.Server
		sp.ServerVar = bf.Vars
		sp.MoreServers = bf.More
		rc := rcase{Pkg: fmt.Sprintf("p%04d", i), Spec: sp, FlagBase: bf.Flag}
		p := rc.ScratchPkg()
		pkgs = append(pkgs, p)
		lines = append(lines, DLine(p), rc.SLine())
		cfg := fmt.Sprintf("mw=1,nf=%d", i%2)
		d := depth
		if len(ts.Templates) > 2 && !c.Thorough {
			d = 4
		}
		rs := requestUniverse(rc, ts, d, cfg)
		nreq += len(rs)
		lines = append(lines, rs...)
	}
	meta := map[string]interface{}{"template_sets": len(sets), "requests": nreq, "max_depth": depth,
		"sample_set": strings.Join(sets[len(sets)-1].Templates, " ")}
	return pkgs, lines, meta
}

func runC03(c runCfg) error {
	var pkgs []*scratch.Pkg
	var lines []string
	meta := map[string]interface{}{}
	if c.Cases != "" {
		var err error
		lines, err = readLines(c.Cases)
		if err != nil {
			return err
		}
		pkgs = pkgsFromDLines(lines)
	} else {
		pkgs, lines, meta = c03Cases(c)
	}
	r, err := runFamily(c, pkgs, lines, false)
	if err != nil {
		return err
	}
	return writeFam(c, r, meta)
}
