module verifharness

go 1.20

require (
	github.com/getkin/kin-openapi v0.38.0
	github.com/ghodss/yaml v1.0.0
	github.com/vkd/goag v0.0.0
	golang.org/x/tools v0.23.0
)

require (
	github.com/go-openapi/jsonpointer v0.19.5 // indirect
	github.com/go-openapi/swag v0.19.5 // indirect
	github.com/mailru/easyjson v0.0.0-20190626092158-b2ccc519800e // indirect
	golang.org/x/exp v0.0.0-20240707233637-46b078467d37 // indirect
	golang.org/x/mod v0.19.0 // indirect
	golang.org/x/sync v0.7.0 // indirect
	golang.org/x/text v0.16.0 // indirect
	gopkg.in/yaml.v2 v2.4.0 // indirect
	gopkg.in/yaml.v3 v3.0.0-20200313102051-9f266ea9e77c // indirect
)

replace github.com/vkd/goag => /repo
